#!/venv/bin/python
"""
Supplementary coverage-guided fuzz target (atheris / libFuzzer) for C02 + C08.

The oracle is inside the target: the independent three-valued scanner (pbt.core.refofx.classify) says what the
library must do with the mutated body text:
    WELL_FORMED(tree) -> TreeBuilder must return exactly that tree        (C02)
    MUST_REJECT       -> TreeBuilder must raise / return no element       (C08)
    UNSPECIFIED       -> nothing is asserted
A disagreement is written to <out>/finding-<n>.json and the process exits 77 (libFuzzer stops at the first crash;
the parent re-checks the input through pbt.run --replay before anything is reported).

usage: fuzz_body.py <outdir> <corpusdir> -runs=N -seed=S [-max_len=..] [-dict=..]
"""
import json
import os
import sys

sys.path.insert(0, os.path.dirname(os.path.dirname(os.path.abspath(__file__))))
DEPS = os.path.join(os.path.dirname(os.path.dirname(os.path.abspath(__file__))), ".deps")
if os.path.isdir(DEPS):
    sys.path.insert(0, DEPS)

import atheris  # noqa: E402

REPO = os.environ.get("VERIF_REPO", "/repo")
sys.path.insert(0, REPO)
# instrument before the first import: the parser (code under test) and the scanner (its branches guide the
# fuzzer towards well-formed and almost-well-formed bodies)
with atheris.instrument_imports(include=["ofxtools.Parser", "pbt.core.refofx"]):
    import ofxtools.Parser  # noqa: F401
    from pbt.core import refofx as X  # noqa: E402
from pbt.core import harness as H  # noqa: E402

H.setup_path()
from pbt.checks import c08  # noqa: E402

OUT = sys.argv[1]
ONLY = os.environ.get("VERIF_FUZZ_ONLY", "")
COUNTS = {"WELL_FORMED": 0, "MUST_REJECT": 0, "UNSPECIFIED": 0, "undecodable": 0}
N = [0]


def finding(kind, text, detail):
    if ONLY and kind != ONLY:
        return
    os.makedirs(OUT, exist_ok=True)
    with open(os.path.join(OUT, "finding-0.json"), "w") as f:
        json.dump({"kind": kind, "text": text, "detail": detail, "counts": COUNTS}, f)
    dump_counts()
    os._exit(77)


def dump_counts():
    os.makedirs(OUT, exist_ok=True)
    with open(os.path.join(OUT, "counts.json"), "w") as f:
        json.dump(COUNTS, f)


def TestOneInput(data):
    N[0] += 1
    if N[0] % 5000 == 0:
        dump_counts()
    text = data.decode("utf_8", "replace")
    v = X.classify(text)
    COUNTS[v[0]] += 1
    if v[0] == X.MUST_REJECT:
        acc, root = c08.library_accepts(text)
        if acc:
            finding("C08", text, f"{v[1]}: parsed as {X.from_etree(root)!r}")
    elif v[0] == X.WELL_FORMED:
        acc, root = c08.library_accepts(text)
        if not acc:
            finding("C02", text, "well-formed body rejected")
        elif X.from_etree(root) != v[1] or X.etree_anomalies(root):
            finding("C02", text, f"parsed as {X.from_etree(root)!r}, expected {v[1]!r}")


if __name__ == "__main__":
    argv = [sys.argv[0]] + sys.argv[2:]
    import atexit

    atheris.Setup(argv, TestOneInput)
    try:
        atheris.Fuzz()
    finally:
        dump_counts()
