"""
Sensitivity (mutation) runs:  python -m pbt.sensitivity [ID ...] [--tests] [--tier quick]

mutants/<ID>.json = [{"name", "file" (relative to the repo), "old", "new", "count" (optional occurrences, default 1)}]
Each mutant is applied to a scratch copy of /repo under /tmp (removed afterwards); with --tests the repository's
own test-suite is run on the copy (a mutant must pass it to count as 'realistic'); then the property's check is run
with VERIF_REPO=<copy> and must exit 1.  Results are written to mutants/RESULTS.json (merged per property).
"""
from __future__ import annotations

import json
import os
import shutil
import subprocess
import sys
import tempfile
import time
from pathlib import Path

VERIF = Path(__file__).resolve().parents[1]
PY = "/venv/bin/python"


def run_one(pid, m, tests, tier):
    tmp = Path(tempfile.mkdtemp(prefix=f"verif_mut_{pid}_"))
    try:
        repo = tmp / "repo"
        shutil.copytree("/repo", repo, ignore=shutil.ignore_patterns(".git", "__pycache__", "*.pyc", ".pytest_cache", "docs"))
        f = repo / m["file"]
        src = f.read_text()
        cnt = src.count(m["old"])
        if cnt != m.get("count", 1):
            return {"name": m["name"], "error": f"'old' occurs {cnt} times, expected {m.get('count', 1)}"}
        f.write_text(src.replace(m["old"], m["new"]))
        res = {"name": m["name"]}
        if tests:
            t0 = time.time()
            env = dict(os.environ, PYTHONPATH=str(repo))
            p = subprocess.run([PY, "-m", "pytest", "-q", "-p", "no:cacheprovider", "-n", "8", "-x", "tests"], cwd=repo, env=env, capture_output=True, text=True)
            res["tests_pass"] = p.returncode == 0
            res["tests_tail"] = p.stdout.strip().splitlines()[-1:] if p.stdout else []
            res["tests_s"] = round(time.time() - t0, 1)
        t0 = time.time()
        env = dict(os.environ, VERIF_REPO=str(repo), PYTHONPATH=str(VERIF), VERIF_EVIDENCE_DIR=str(tmp / "ev"), VERIF_REPLAY_DIR=str(tmp / "rp"))
        p = subprocess.run([PY, "-m", "pbt.run", pid, "--tier", tier], cwd=VERIF, env=env, capture_output=True, text=True)
        res["check_exit"] = p.returncode
        res["caught"] = p.returncode == 1
        res["keys"] = sorted({ln.split("key=")[1].split(" ")[0] for ln in p.stdout.splitlines() if ln.startswith("VIOLATION") and "key=" in ln})[:8]
        if p.returncode not in (0, 1):
            res["stderr"] = p.stderr[-800:]
        res["check_s"] = round(time.time() - t0, 1)
        return res
    finally:
        shutil.rmtree(tmp, ignore_errors=True)


def main():
    args = [a for a in sys.argv[1:] if not a.startswith("--")]
    tests = "--tests" in sys.argv
    tier = "quick"
    only = None
    for a in sys.argv[1:]:
        if a.startswith("--only="):
            only = a.split("=", 1)[1]
    pids = args or sorted(p.stem for p in (VERIF / "mutants").glob("C*.json"))
    out_path = VERIF / "mutants" / "RESULTS.json"
    results = json.loads(out_path.read_text()) if out_path.exists() else {}
    from concurrent.futures import ThreadPoolExecutor

    for pid in pids:
        muts = json.loads((VERIF / "mutants" / f"{pid}.json").read_text())
        if only:
            muts = [m for m in muts if only in m["name"]]
        with ThreadPoolExecutor(max_workers=1 if tests else 2) as ex:
            rs = list(ex.map(lambda m: run_one(pid, m, tests, tier), muts))
        old = {r["name"]: r for r in results.get(pid, [])}
        for r in rs:
            if "tests_pass" not in r and r["name"] in old and "tests_pass" in old[r["name"]]:
                r["tests_pass"] = old[r["name"]]["tests_pass"]
            old[r["name"]] = r
            print(pid, json.dumps(r))
        results[pid] = list(old.values())
    out_path.write_text(json.dumps(results, indent=1, sort_keys=True) + "\n")


if __name__ == "__main__":
    main()
