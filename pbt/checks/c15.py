"""C15 - the cached FI profile is always whole, the newest, and from the right server."""
from __future__ import annotations

import io
import itertools
import os
import shutil
import sys
import tempfile
import threading
import urllib.error
import warnings
from pathlib import Path

from hypothesis import strategies as st
from hypothesis.stateful import RuleBasedStateMachine, rule, precondition

from pbt.core import harness as H
from pbt.core import fakenet as F
from pbt.core import faultfs
from pbt.core import reqmodel as Q
from pbt.core import reftypes as R

PID = "C15"
LEVEL = "fault_enumeration"
RULE = (
    "histories: Hypothesis rule-based machine over seven servers (four sharing ORG/FID - three of them also the host, told apart by path or port; three without ORG/FID, two of them on one host) "
    "x server behaviours {newer profile, same date, older profile, 'up to date', error status, garbage, transport failure} x "
    "client {same instance, restarted, second client with equal configuration}; reference model = newest profile bytes each "
    "server has delivered: every returning call returns exactly those bytes, every request carries that profile's DTPROFUP (or "
    "19900101), the cache file equals those bytes after every step (absent before the first delivery), cached dates never "
    "decrease, no server ever receives another server's date or is handed its profile.  crash points: for a cache-writing "
    "request every numbered file-I/O event under the data directory (open-for-write, each write, close, replace/rename, "
    "unlink, fsync; pre/post; unflushed / flushed / half-written variants) is turned into a hard crash (os._exit in a forked "
    "child), then a restarted client talks to a well-behaved server: it must succeed, return the newest profile, and leave a "
    "whole cache.  schedules: two concurrent profile requests on one client, gated at cache read / server reply / "
    "open-for-write / write / close / replace, all interleavings enumerated; afterwards the cache must "
    "be one of the complete profiles sent and a further request must succeed.  History steps also include a request through "
    "another server's client with url= for the call, and ofxget's scan (about thirty concurrent profile requests through one "
    "client): every request goes to the server meant, asks with the date held then, and a reply that is not newer leaves the "
    "cache alone.  non-trivial = history with a successful write "
    "followed by up-to-date / failure / restart, every crash point, every schedule with overlapping writes"
)
ASSUMPTIONS = [
    "crash points are at Python I/O-call granularity; kernel reordering / torn sector writes are not modelled",
    "a server never claims 'up to date' to a client that sent the 19900101 placeholder (contradictory server: not generated)",
    "for concurrent writers only wholeness and usability are asserted, not which of the two complete profiles wins",
]

SERVERS = [
    {"url": "https://ofx.alpha-bank.com/ofx", "org": "ALPHA", "fid": "1", "base": 2000},
    {"url": "https://ofx2.alpha-bank.com/other", "org": "ALPHA", "fid": "1", "base": 2300},
    {"url": "https://ofx.noid-one.com/ofx", "org": None, "fid": None, "base": 2600},
    {"url": "https://ofx.noid-two.org/ofx", "org": None, "fid": None, "base": 2900},
    # same ORG/FID and same host as server 0, told apart only by path / port / query
    {"url": "https://ofx.alpha-bank.com/hosted/bank2/ofx", "org": "ALPHA", "fid": "1", "base": 3200},
    {"url": "https://ofx.alpha-bank.com:8443/ofx", "org": "ALPHA", "fid": "1", "base": 3500},
    {"url": "https://ofx.noid-one.com/ofx?inst=2", "org": None, "fid": None, "base": 3800},
    # profiles last updated long ago: dated before the 19900101 a client sends when it holds nothing
    {"url": "https://ofx.old-savings.example/ofx", "org": "OLDSAV", "fid": "7", "base": 1950},
]
PLACEHOLDER_US = R.local_us(1990, 1, 1)
STATS = None


def _dt_in_zone(year):
    """1 January of `year`, 00:00 UTC, written in the zone the server happens to use (the instant is what counts)."""
    off = [0, -210, 330, -570, 0][year % 5]
    y, mo, d, h, mi, s, us = R.fields_from_us(year_us(year) + off * 60 * 10**6)
    return ["dt", y, mo, d, h, mi, s, us, off, None if year % 2 else "LOC"]


def profile_bytes(server, year, variant=0, sonrs_status=None):
    # the sign-on response carries a DTPROFUP of its own that differs from the profile's (odd years: later, even: earlier)
    so = F.dt_tag(year + 40, 6, 15) if year % 2 else F.dt_tag(max(1995, year - 40), 6, 15)
    return F.profile_response({"BANKMSGSET": server["url"]}, _dt_in_zone(year), code=0, extra_finame="Bank " + "x" * (7 * variant) + str(year), sonrs_dtprofup=so, sonrs_status=sonrs_status)


def new_client(server):
    from ofxtools.Client import OFXClient

    return OFXClient(server["url"], userid="joe", org=server["org"], fid=server["fid"], version=203)


def profrs_files(root):
    """The on-disk cache as a set of documents: every regular file under the data directory - wherever and however the
    library names it - that looks like a complete OFX document (has an <OFX> root and ends with </OFX>).  Keyed by content
    hash: how many files hold a document, what they are called, and what else the library keeps next to them (temporary
    files, markers, indexes, leftovers of an interrupted write) is its own business; that such a leftover is never *used* is
    what the behavioural checks (date asked, profile returned, follow-up request) establish."""
    import hashlib

    out = {}
    root = Path(root)
    if not root.exists():
        return out
    for p in sorted(root.rglob("*")):
        if p.is_file():
            data = p.read_bytes()
            if b"<OFX>" in data and data.rstrip().endswith(b"</OFX>"):
                out[hashlib.sha1(data).hexdigest()[:12]] = data
    return out


def request_dtprofup(rec):
    st_ = Q.story_from_bytes(rec["data"])
    return st_["requests"]["prof"][0]["dtprofup"]


def year_us(year):
    return R.local_us(year, 1, 1)


class Env:
    """Temp data dir + fake net + redirected config.DATADIR."""

    def __init__(self, responder):
        H.setup_path()
        import ofxtools.config as cfg

        self.cfg = cfg
        self.tmp = Path(tempfile.mkdtemp(prefix="verif_c15_"))
        self.old = cfg.DATADIR
        cfg.DATADIR = self.tmp
        self.net = F.FakeNet(responder)
        self.net.__enter__()

    def close(self):
        self.net.__exit__(None, None, None)
        self.cfg.DATADIR = self.old
        shutil.rmtree(self.tmp, ignore_errors=True)


# ---------------------------------------------------------------------------
# histories
# ---------------------------------------------------------------------------
class CacheMachine(RuleBasedStateMachine):
    servers_allowed = tuple(range(8))

    def __init__(self):
        super().__init__()
        warnings.simplefilter("ignore")
        self.env = Env(self.respond)
        self.held = {}  # server index -> (bytes, year)
        self.maxyear = {}
        self.sent = {}  # server index -> set of bytes delivered or attempted
        self.clients = {}
        self.plan = None
        self.history = []
        self.flags = set()
        self.cache_dates = {}

    def teardown(self):
        self.env.close()
        if STATS is not None:
            nontrivial = "write-then-(uptodate|failure|restart)" in self.flags
            STATS.case(self.history, nontrivial=nontrivial and bool(self.history), labels=sorted(self.flags) + ["steps:%d" % min(len(self.history), 8)])

    def respond(self, rec):
        kind, body = self.plan
        if kind == "transport":
            raise urllib.error.URLError("scripted transport failure")
        return 200, [("Content-Type", "application/x-ofx")], body

    def fail(self, key, detail):
        if STATS is not None:
            STATS.fail(key, list(self.history), f"step {self.history[-1]}: {detail}")

    @rule(si=st.sampled_from([0, 0, 0, 0, 0, 1, 2, 3, 4, 4, 5, 6, 7, 7]), who=st.sampled_from(["same", "same", "restart", "second", "other", "other", "override", "scan"]), behaviour=st.sampled_from(["newer", "newer", "same", "older", "uptodate", "uptodate", "errstatus", "garbage", "transport", "newer-signon-status", "truncated"]))
    def request(self, si, who, behaviour):
        if who == "scan":
            return _scan_rule(self, si, {"same": "uptodate", "errstatus": "garbage", "transport": "garbage"}.get(behaviour, behaviour))
        si = self.servers_allowed[si % len(self.servers_allowed)]
        server = SERVERS[si]
        held = self.held.get(si)
        if behaviour in ("same", "older", "uptodate") and held is None:
            behaviour = "newer"
        step = ["request", si, who, behaviour]
        self.history.append(step)
        # live client instances of this server: 'same' = the one used last, 'restart' = it is replaced by a new one,
        # 'second' = a further instance with equal configuration joins, 'other' = a different live instance is used
        live = self.clients.setdefault(si, [])
        if not live:
            live.append(new_client(server))
        elif who == "restart":
            live[-1] = new_client(server)
        elif who == "second" and len(live) < 3:
            live.append(new_client(server))
        elif who == "other" and len(live) > 1:
            live.append(live.pop(0))
            self.flags.add("another live client of the same server used")
        if held is not None and who != "same":
            self.flags.add("write-then-(uptodate|failure|restart)")
        client = live[-1]
        call_kw = {}
        if who == "override":
            # a client configured for ANOTHER server with the same ORG/FID asks this server, naming it for this call only
            # (request_profile(url=...), as ofxget's scan does): everything below is about server si all the same
            family = [j for j in self.servers_allowed if j != si and (SERVERS[j]["org"], SERVERS[j]["fid"]) == (server["org"], server["fid"])]
            if family:
                j = family[len(self.history) % len(family)]
                lj = self.clients.setdefault(j, [])
                if not lj:
                    lj.append(new_client(SERVERS[j]))
                client = lj[-1]
                call_kw = {"url": server["url"]}
                self.flags.add("asked through another server's client with url= for this call")
        served = None
        signon_status = None
        if behaviour == "newer-signon-status":
            # a complete, newer profile in a successful profile transaction - while the sign-on response carries a status of
            # its own (the anonymous sign-on may well be answered with a warning or an error code).  Whatever the client
            # makes of it: a call that succeeds returns the newest profile, a call that fails leaves the cache as it was.
            behaviour = "newer"
            signon_status = [(15500, "ERROR"), (2000, "ERROR"), (15000, "WARN"), (0, "WARN")][len(self.history) % 4]
            self.flags.add("newer profile under a non-zero sign-on status")
        if behaviour == "newer":
            y = self.maxyear.get(si, server["base"]) + 1
            self.maxyear[si] = y
            served = profile_bytes(server, y, variant=y % 3, sonrs_status=signon_status)
            self.plan = ("ok", served)
        elif behaviour == "same":
            served = profile_bytes(server, held[1], variant=(held[1] % 3) + 1)
            self.plan = ("ok", served)
        elif behaviour == "older":
            served = profile_bytes(server, held[1] - 1, variant=2)
            self.plan = ("ok", served)
        elif behaviour == "uptodate":
            self.plan = ("ok", F.profile_response({}, None, code=1))
        elif behaviour == "errstatus":
            self.plan = ("ok", F.profile_response({}, None, code=[2000, 2020, 15500, 2019, 13504][len(self.history) % 5]))
        elif behaviour == "garbage":
            self.plan = ("ok", b"<html><body>Service temporarily unavailable</body></html>")
        elif behaviour == "truncated":
            # a newer profile whose transmission broke off in its last bytes: malformed data, not a profile
            y = self.maxyear.get(si, server["base"]) + 1
            full = profile_bytes(server, y, variant=y % 3)
            cut = [4, 7, 13, 22, 40, 61][len(self.history) % 6]
            self.plan = ("ok", full[:-cut])
            self.flags.add("reply cut off in its last bytes")
        else:
            self.plan = ("transport", None)
        if held is not None and behaviour in ("uptodate", "errstatus", "garbage", "transport", "older"):
            self.flags.add("write-then-(uptodate|failure|restart)")
        self.flags.add("behaviour:" + behaviour)
        if si in (1, 3, 4, 5, 6):
            self.flags.add("server sharing ORG/FID with another")
        if si in (4, 5, 6):
            self.flags.add("server sharing ORG/FID and host with another")
        before = len(self.env.net.log)
        files_before = profrs_files(self.env.tmp)
        result, raised = None, None
        try:
            result = client.request_profile(**call_kw).read()
        except Exception as e:
            raised = e
        new = self.env.net.log[before:]
        # -- what the request said
        if len(new) != 1:
            self.fail("request-count", f"{len(new)} requests for one profile call")
        else:
            if new[0]["url"] != server["url"]:
                self.fail("profile-request-sent-to-another-server", f"meant for {server['url']}, sent to {new[0]['url']}")
            try:
                asked = request_dtprofup(new[0])
            except Exception as e:
                asked = None
                self.fail("profile-request-unreadable", repr(e))
            want = year_us(held[1]) if held is not None else PLACEHOLDER_US
            if asked is not None and asked != want:
                foreign = [j for j, h in self.held.items() if j != si and year_us(h[1]) == asked]
                if foreign:
                    self.fail("cross-server/other-servers-dtprofup-sent", f"server {si} was asked with the date of server {foreign[0]}'s profile")
                else:
                    self.fail("asked-with-wrong-date", f"DTPROFUP {asked} but the profile then held has {want}")
        # -- what the call returned
        newest = held
        if behaviour in ("newer", "same"):
            newest = (served, self.maxyear[si] if behaviour == "newer" else held[1])
        if raised is None:
            if newest is None or result != newest[0]:
                others = [j for j, h in self.held.items() if j != si and h[0] == result]
                if others:
                    self.fail("cross-server/other-servers-profile-returned", f"server {si} client was handed server {others[0]}'s profile")
                elif behaviour == "older" and result == served:
                    self.fail("older-profile-returned", "an older profile replaced the newer one held")
                else:
                    self.fail(f"wrong-profile-returned/{behaviour}", f"returned {len(result or b'')} bytes, newest delivered has {len(newest[0]) if newest else None}")
        elif behaviour in ("newer", "same", "uptodate") and signon_status is None:
            key = f"valid-reply-failed/{behaviour}"
            if any(j != si and (SERVERS[j]["org"], SERVERS[j]["fid"]) == (server["org"], server["fid"]) for j in self.held):
                key = "cross-server/valid-reply-failed"
            self.fail(key, repr(raised))
        if raised is None and behaviour in ("newer", "same"):
            self.held[si] = newest
        elif raised is not None and behaviour in ("newer", "same"):
            pass
        # -- the cache
        files = profrs_files(self.env.tmp)
        if raised is not None and files != files_before:
            self.fail("failed-call-changed-cache", f"{sorted(files_before)} -> {sorted(files)} after {raised!r}")
        allsent = set()
        for j, h in self.held.items():
            allsent.add(h[0])
        for name, data in files.items():
            if data not in allsent and data not in {served}:
                self.fail("cache-not-a-complete-profile", f"{name}: {len(data)} bytes matching no delivered profile")
        h2 = self.held.get(si)
        if h2 is not None and raised is None:
            mine = [n for n, d in files.items() if d == h2[0]]
            if not mine:
                self.fail("cache-does-not-hold-newest", f"files {sorted(files)}; none equals the newest delivered profile of server {si}")


def _scan_rule(self, si, behaviour):
    """ofxget's scan: some thirty profile requests (every version x format) to one server, issued concurrently through one
    client.  A history of profile requests like any other: each asks with the date of the profile held at that moment,
    a reply that is not newer never replaces the cache, and afterwards the cache holds the newest profile delivered."""
    import contextlib
    import io

    from ofxtools.scripts import ofxget

    si = self.servers_allowed[si % len(self.servers_allowed)]
    server = SERVERS[si]
    held = self.held.get(si)
    if behaviour in ("same", "older", "uptodate") and held is None:
        behaviour = "newer"
    step = ["scan", si, behaviour]
    self.history.append(step)
    self.flags.add("scan (concurrent profile requests)")
    served = None
    if behaviour == "newer":
        y = self.maxyear.get(si, server["base"]) + 1
        self.maxyear[si] = y
        served = profile_bytes(server, y, variant=y % 3)
        self.plan = ("ok", served)
    elif behaviour == "older":
        served = profile_bytes(server, held[1] - 1, variant=2)
        self.plan = ("ok", served)
    elif behaviour == "uptodate":
        self.plan = ("ok", F.profile_response({}, None, code=1))
    else:
        self.plan = ("ok", b"<html><body>Service temporarily unavailable</body></html>")
    if held is not None:
        self.flags.add("write-then-(uptodate|failure|restart)")
    before = len(self.env.net.log)
    files_before = profrs_files(self.env.tmp)
    try:
        with contextlib.redirect_stdout(io.StringIO()):
            ofxget.scan_profile({"dryrun": False, "write": False, "url": server["url"], "org": server["org"], "fid": server["fid"], "useragent": None, "nonewfileuid": False})
    except Exception:
        # the scan's own reporting (and its refusal of older profiles) may raise: only the traffic and the cache are judged
        self.flags.add("scan ended with an exception")
    new = self.env.net.log[before:]
    if not new:
        self.fail("scan-sent-nothing", "")
    allowed = {year_us(held[1]) if held is not None else PLACEHOLDER_US}
    if behaviour == "newer":
        allowed.add(year_us(self.maxyear[si]))  # requests issued after the first reply was cached
    for rec in new:
        if rec["url"] != server["url"]:
            self.fail("profile-request-sent-to-another-server", f"scan of {server['url']} sent to {rec['url']}")
            break
        try:
            asked = request_dtprofup(rec)
        except Exception as e:
            self.fail("profile-request-unreadable", repr(e))
            break
        if asked not in allowed:
            self.fail("asked-with-wrong-date", f"scan: DTPROFUP {asked}, the profile held then has one of {sorted(allowed)}")
            break
    if behaviour == "newer":
        self.held[si] = (served, self.maxyear[si])
    files = profrs_files(self.env.tmp)
    if behaviour != "newer" and files != files_before:
        self.fail("failed-call-changed-cache" if behaviour != "older" else "older-profile-returned", f"scan with {behaviour} replies: {sorted(files_before)} -> {sorted(files)}")
    h2 = self.held.get(si)
    if h2 is not None and not [n for n, d in files.items() if d == h2[0]]:
        self.fail("cache-does-not-hold-newest", f"after a scan with {behaviour} replies: no file equals the newest delivered profile of server {si}")
    for name, data in files.items():
        if data not in {h[0] for h in self.held.values()}:
            self.fail("cache-not-a-complete-profile", f"after scan: {name}: {len(data)} bytes matching no delivered profile")




def replay_history(case, servers_allowed=tuple(range(8))):
    global STATS
    saved = STATS
    STATS = H.Stats()
    try:
        m = CacheMachine()
        m.servers_allowed = tuple(servers_allowed)
        try:
            for stp in case:
                if stp[0] == "scan":
                    idx = m.servers_allowed.index(stp[1]) if stp[1] in m.servers_allowed else 0
                    _scan_rule(m, idx, stp[2])
                    continue
                if stp[2] == "scan":
                    continue
                _, si, who, behaviour = stp
                idx = m.servers_allowed.index(si) if si in m.servers_allowed else 0
                m.request(idx, who, behaviour)
        finally:
            m.teardown()
        return [(k, v[2]) for k, v in STATS.failures.items()]
    finally:
        STATS = saved


# ---------------------------------------------------------------------------
# crash points
# ---------------------------------------------------------------------------
def well_behaved(state):
    """Server that answers 'up to date' iff the client already holds its newest profile."""

    def responder(rec):
        asked = request_dtprofup(rec)
        newest_bytes, newest_year = state["newest"]
        if asked == year_us(newest_year):
            return 200, [], F.profile_response({}, None, code=1)
        return 200, [], newest_bytes

    return responder


def crash_run(pre, k, variant):
    """-> dict(result) ; runs in the calling process, forks the crashing request."""
    server = SERVERS[0]
    old = profile_bytes(server, 2001, 1)
    new = profile_bytes(server, 2002, 2)
    state = {"newest": (old, 2001)}
    env = Env(lambda rec: well_behaved(state)(rec))
    out = {"pre": pre, "k": k, "variant": variant}
    try:
        if pre:
            new_client(server).request_profile()
        state["newest"] = (new, 2002)
        rfd, wfd = os.pipe()
        pid = os.fork()
        if pid == 0:
            code = 3
            os.close(rfd)
            try:
                n = [0]

                def hook(op, path, phase, f, data):
                    if op == "open-r":
                        return
                    n[0] += 1
                    if n[0] != k:
                        return
                    try:
                        if variant == "partial" and op in ("write", "os-write") and phase == "pre" and f is not None:
                            f.write(data[: len(data) // 2])
                            f.flush()
                        elif variant == "flushed" and f is not None and phase == "post":
                            f.flush()
                    finally:
                        os._exit(77)

                with faultfs.Intercept(env.tmp, hook):
                    new_client(server).request_profile()
                code = 0 if n[0] < k else 5
            except BaseException as e:
                code = 4
                try:
                    os.write(wfd, repr(e)[:300].encode("utf_8", "replace"))
                except Exception:
                    pass
            finally:
                os._exit(code)
        os.close(wfd)
        _, status = os.waitpid(pid, 0)
        out["child"] = os.waitstatus_to_exitcode(status)
        if out["child"] == 4:
            out["child_error"] = os.read(rfd, 400).decode("utf_8", "replace")
        os.close(rfd)
        if out["child"] != 77:
            return out
        files = profrs_files(env.tmp)
        out["cache_after_crash"] = {n: len(d) for n, d in files.items()}
        out["whole"] = all(d in (old, new) for d in files.values())
        # restart; well-behaved server
        try:
            got = new_client(server).request_profile().read()
            out["followup"] = "ok" if got == new else "wrong-profile"
        except Exception as e:
            out["followup"] = "raised " + repr(e)[:200]
        files = profrs_files(env.tmp)
        out["cache_final_ok"] = any(d == new for d in files.values()) and all(d in (old, new) for d in files.values())
        return out
    finally:
        env.close()


def crash_failures(res):
    out = []
    if res.get("child") != 77:
        return out
    if res["followup"] != "ok":
        out.append(("crash-leaves-cache-that-breaks-later-requests", f"{res}"))
    elif not res["cache_final_ok"]:
        out.append(("crash-leaves-mixed-cache", f"{res}"))
    return out


# ---------------------------------------------------------------------------
# schedules
# ---------------------------------------------------------------------------
class Scheduler:
    """Two threads; every gated step blocks until the schedule names the thread."""

    def __init__(self, schedule):
        self.schedule = list(schedule)
        self.cv = threading.Condition()
        self.waiting = {}
        self.done = set()
        self.trace = []
        self.tids = {}

    def gate(self, label):
        tid = self.tids.get(threading.get_ident())
        if tid is None:
            return
        with self.cv:
            self.waiting[tid] = label
            self.cv.notify_all()
            while self.waiting.get(tid) is not None:
                if not self.cv.wait(timeout=180):
                    raise H.HarnessError("scheduler dead-lock")

    def finish(self, tid):
        with self.cv:
            self.done.add(tid)
            self.cv.notify_all()

    def run(self, n=2):
        with self.cv:
            while len(self.done) < n:
                # wait until every live thread is parked at a gate
                if not self.cv.wait_for(lambda: len(self.done) + len([t for t, l in self.waiting.items() if l is not None and t not in self.done]) >= n or len(self.done) >= n, timeout=180):
                    raise H.HarnessError("scheduler timeout")
                if len(self.done) >= n:
                    break
                parked = sorted(t for t, l in self.waiting.items() if l is not None and t not in self.done)
                if not parked:
                    continue
                pick = None
                while self.schedule:
                    c = self.schedule.pop(0)
                    if c in parked:
                        pick = c
                        break
                if pick is None:
                    pick = parked[0]
                self.trace.append((pick, self.waiting[pick]))
                self.waiting[pick] = None
                self.cv.notify_all()


def schedule_run(schedule):
    server = SERVERS[0]
    replies = [profile_bytes(server, 2002, 3), profile_bytes(server, 2003, 0)]
    sched = Scheduler(schedule)
    counter = [0]
    lock = threading.Lock()

    def responder(rec):
        sched.gate("server-reply")
        with lock:
            i = counter[0]
            counter[0] += 1
        return 200, [], replies[i % 2]

    env = Env(responder)
    out = {"schedule": list(schedule)}
    try:
        def hook(op, path, phase, f, data):
            if phase != "pre":
                return
            if op == "open-r":
                sched.gate("read-cache")
            elif op in ("open-w", "write", "close", "replace", "rename", "os-open", "os-write"):
                sched.gate(op)

        client = new_client(server)
        results = {}

        def worker(tid):
            sched.tids[threading.get_ident()] = tid
            try:
                results[tid] = ("ok", client.request_profile().read())
            except Exception as e:
                results[tid] = ("raised", repr(e)[:200])
            finally:
                sched.finish(tid)

        with faultfs.Intercept(env.tmp, hook):
            ths = [threading.Thread(target=worker, args=(t,)) for t in (0, 1)]
            for t in ths:
                t.start()
            sched.run(2)
            for t in ths:
                t.join(300)
        out["trace"] = [f"{t}:{l}" for t, l in sched.trace]
        out["results"] = {t: r[0] for t, r in results.items()}
        files = profrs_files(env.tmp)
        out["cache"] = {n: len(d) for n, d in files.items()}
        out["whole"] = all(d in replies for d in files.values())
        for t, r in results.items():
            if r[0] == "ok" and r[1] not in replies:
                out["bad_return"] = t
        # follow-up with a well-behaved server
        state = {"newest": (replies[1], 2003)}
        env.net.responder = well_behaved(state)
        try:
            got = new_client(server).request_profile().read()
            out["followup"] = "ok" if got == replies[1] else "wrong-profile"
        except Exception as e:
            out["followup"] = "raised " + repr(e)[:200]
        return out
    finally:
        env.close()


def schedule_failures(res):
    out = []
    if not res["whole"]:
        out.append(("concurrent-writers-leave-mixed-cache", str(res)))
    if res["followup"] != "ok":
        out.append(("concurrent-writers-break-later-requests", str(res)))
    if "bad_return" in res:
        out.append(("concurrent-call-returned-mixed-content", str(res)))
    return out


def overlapping(trace):
    """Did the two writers' write-path steps interleave?"""
    w = [t.split(":")[0] for t in trace if t.split(":")[1] in ("open-w", "write", "close", "replace", "rename", "os-open", "os-write")]
    return len({x for x in w}) == 2 and any(a != b for a, b in zip(w, w[1:])) and w != sorted(w) or (w == sorted(w) and False)


# ---------------------------------------------------------------------------
def check_case(case):
    H.setup_path()
    warnings.simplefilter("ignore")
    if isinstance(case, list):
        return replay_history(case)
    kind = case["kind"]
    if kind == "history":
        return replay_history(case["steps"], case.get("servers", tuple(range(8))))
    if kind == "crash":
        return crash_failures(crash_run(case["pre"], case["k"], case["variant"]))
    if kind == "schedule":
        return schedule_failures(schedule_run(case["schedule"]))
    if kind == "restart":
        return restart_failures(case["si"], case["years"], restart_run(case["si"], case["years"]))
    raise H.HarnessError(case)


def _machine_worker(job):
    global STATS
    H.setup_path()
    from hypothesis import seed, settings, HealthCheck, Phase
    from hypothesis.stateful import run_state_machine_as_test

    n, steps, sd, servers = job
    STATS = H.Stats()

    class Mach(CacheMachine):
        servers_allowed = tuple(servers)

    run_state_machine_as_test(
        seed(sd)(Mach),
        settings=settings(max_examples=n, stateful_step_count=steps, database=None, deadline=None, report_multiple_bugs=False, suppress_health_check=list(HealthCheck), phases=[Phase.generate]),
    )
    s = STATS
    STATS = None
    # replays need to know which servers were in play
    s.failures = {k: (sz, {"kind": "history", "steps": c, "servers": list(servers)}, d) for k, (sz, c, d) in s.failures.items()}
    return s


def _crash_worker(job):
    H.setup_path()
    warnings.simplefilter("ignore")
    pre, variant = job
    s = H.Stats()
    k = 1
    while k < 200:
        res = crash_run(pre, k, variant)
        if res.get("child") != 77:
            if res.get("child") == 4:
                # no fault was injected before the k-th I/O event, the server is well behaved - and the request raised
                case = {"kind": "crash", "pre": pre, "k": k, "variant": variant}
                s.case(case, nontrivial=True, labels=["request without fault raised"])
                s.fail("request-to-well-behaved-server-raised" + ("/cache-present" if pre else "/first-request"), case, res.get("child_error", ""))
            elif res.get("child") not in (0, 5):
                raise H.HarnessError(f"crash child exit {res.get('child')}")
            break
        case = {"kind": "crash", "pre": pre, "k": k, "variant": variant}
        s.case(case, nontrivial=True, labels=[f"crash-point/{variant}", "cache pre-existing" if pre else "first write"])
        for key, d in crash_failures(res):
            s.fail(key, case, d)
        k += 1
    s.note("crash_points_" + ("pre_" if pre else "fresh_") + variant, k - 1)
    return s


def all_schedules(n0, n1):
    for pos in itertools.combinations(range(n0 + n1), n0):
        sched = [1] * (n0 + n1)
        for p in pos:
            sched[p] = 0
        yield sched


def _schedule_worker(scheds):
    H.setup_path()
    warnings.simplefilter("ignore")
    s = H.Stats()
    for sc in scheds:
        res = schedule_run(sc)
        case = {"kind": "schedule", "schedule": sc}
        ov = overlapping(res.get("trace", []))
        s.case(case, nontrivial=ov, labels=["schedule", "overlapping writes" if ov else "serial writes"], h=H.chash(res.get("trace")))
        for key, d in schedule_failures(res):
            s.fail(key, case, d)
        s.sample({"schedule": sc, "trace": res.get("trace")}) if len(s.samples) < 2 else None
    return s


def run(ctx):
    # cross-server finding open? then the history machine stays on servers with distinct ORG/FID (exclusion by construction)
    openk = H.open_keys(PID)
    servers = (0, 2) if any(k.startswith("cross-server/") for k in openk) else tuple(range(8))
    if len(servers) != 8:
        ctx.exclude("history machine restricted to servers with distinct ORG/FID (open cross-server finding)")
    n = ctx.scale(12, 150)
    steps = ctx.scale(8, 12)
    ctx.pmap(_machine_worker, [(n, steps, ctx.sub_seed("m", i), servers) for i in range(16)])
    ctx.pmap(_crash_worker, [(pre, variant) for pre in (False, True) for variant in ("plain", "flushed", "partial")])
    ctx.pmap(_restart_worker, [(0, [2001, 2001, 2002]), (2, [2601, 2601, 2602]), (4, [3201, 3202, 3202]), (6, [3801, 3801, 3801])], ambient=False)
    # schedules: probe the number of gates per thread with one serial run, then enumerate
    H.setup_path()
    probe = schedule_run([0] * 50)
    n0 = sum(1 for t in probe["trace"] if t.startswith("0:"))
    n1 = sum(1 for t in probe["trace"] if t.startswith("1:"))
    scheds = list(all_schedules(n0, n1))
    total = len(scheds)
    if not ctx.thorough and total > 1200:
        step = total // 1200 + 1
        scheds = scheds[::step]
    ctx.pmap(_schedule_worker, [scheds[i::16] for i in range(16)])
    ctx.note("schedules", {"gates_thread0": n0, "gates_thread1": n1, "all_interleavings": total, "explored": len(scheds), "exhaustive": len(scheds) == total})


# ---------------------------------------------------------------------------
# real restarts: one interpreter per run, nothing pinned that a user's interpreter would not pin either
# ---------------------------------------------------------------------------
def _restart_child():
    """python -m pbt.checks.c15 --restart-child <datadir> <server index> <year the server's newest profile has>"""
    import hashlib
    import json

    H.setup_path()
    import ofxtools.config as cfg

    datadir, si, year = Path(sys.argv[2]), int(sys.argv[3]), int(sys.argv[4])
    cfg.DATADIR = datadir
    server = SERVERS[si]
    state = {"newest": (profile_bytes(server, year, year % 3), year)}
    out = {}
    with F.FakeNet(lambda rec: well_behaved(state)(rec)) as net:
        try:
            got = new_client(server).request_profile().read()
            out["result"] = hashlib.sha1(got).hexdigest()
        except Exception as e:
            out["raised"] = repr(e)[:300]
        out["asked"] = [request_dtprofup(r) for r in net.log]
    out["newest"] = hashlib.sha1(state["newest"][0]).hexdigest()
    out["files"] = {n: hashlib.sha1(d).hexdigest() for n, d in profrs_files(datadir).items()}
    print(json.dumps(out))


def restart_run(si, years):
    """-> list of per-run dicts; each run is a fresh interpreter with its own (random) hash seed."""
    import json
    import subprocess

    tmp = Path(tempfile.mkdtemp(prefix="verif_c15r_"))
    try:
        runs = []
        for y in years:
            env = dict(os.environ, PYTHONHASHSEED="random", PYTHONPATH=str(H.VERIF))
            p = subprocess.run([sys.executable, "-m", "pbt.checks.c15", "--restart-child", str(tmp), str(si), str(y)], capture_output=True, text=True, env=env, cwd=str(H.VERIF), timeout=300)
            if p.returncode != 0 or not p.stdout.strip():
                raise H.HarnessError(f"restart child failed: {p.stderr[-400:]}")
            runs.append(json.loads(p.stdout.strip().splitlines()[-1]))
        return runs
    finally:
        shutil.rmtree(tmp, ignore_errors=True)


def restart_failures(si, years, runs):
    out = []
    held = None
    for y, r in zip(years, runs):
        want = year_us(held) if held is not None else PLACEHOLDER_US
        if r.get("asked") != [want]:
            out.append(("asked-with-wrong-date/after-a-real-restart", f"run for year {y}: asked {r.get('asked')}, the profile held since the previous run has {want}"))
        if "raised" in r:
            out.append(("valid-reply-failed/after-a-real-restart", f"run for year {y}: {r['raised']}"))
        elif r.get("result") != r.get("newest"):
            out.append(("wrong-profile-returned/after-a-real-restart", f"run for year {y}"))
        if r.get("newest") not in r.get("files", {}).values():
            out.append(("cache-not-one-complete-newest-profile/after-a-real-restart", f"run for year {y}: files {sorted(r.get('files', {}))}"))
        held = y if held is None or y > held else held
    return out


def _restart_worker(job):
    H.setup_path()
    s = H.Stats()
    si, years = job
    case = {"kind": "restart", "si": si, "years": years}
    s.case(case, nontrivial=True, labels=["real restarts (one interpreter per run, unpinned hash seed)"])
    for k, d in restart_failures(si, years, restart_run(si, years)):
        s.fail(k, case, d)
    return s


if __name__ == "__main__":
    if "--restart-child" in sys.argv:
        _restart_child()

