"""C03 - every data element reaches the model with the value its OFX data type assigns."""
from __future__ import annotations

import io
import os
import tempfile
import warnings

from hypothesis import strategies as st

from pbt.core import harness as H
from pbt.core import modelgen as M
from pbt.core import docgen as D
from pbt.core import refofx as X

PID = "C03"
LEVEL = "exploration"
RULE = (
    "for every concrete aggregate class: Hypothesis-generated valid document descriptions whose element texts are drawn from "
    "the lexical space of each OFX type (Y/N; integers; decimals with '.' or ',' and optional '+'; character data with & < > "
    "escaped and quotes/blanks optionally as &apos; &quot; &nbsp;; every enumeration token; date-times and times in all "
    "notations with offsets -12:00..+14:00 signed/unsigned, with/without .MM, zone names), rendered by the generator's own "
    "renderer as XML or SGML (end tags of data elements randomly omitted, varied gaps); expected (path, list position, native "
    "type, value) computed by an independent implementation of the type rules and compared with the converted model in both "
    "directions.  non-trivial = document with >=2 aggregate levels and >=1 date-time with non-zero offset, comma decimal or "
    "entity-escaped string; distinct by description hash"
)
ASSUMPTIONS = [
    "not asserted: leading zeros / '+' on integers, exponents in decimals, second=60, offsets outside -12..+14, the [-:TZ] zone-name-only offset form",
    "enumeration tokens: the tables of the tree the machinery was built against (pbt/data/enum_tokens.json) are the reference; tokens added since are swept too, tokens removed since still count as valid (re-generate the file after a deliberate removal)",
    "fixed-scale decimals: only the quantum and |value - text| <= quantum/2 are asserted (rounding mode is not)",
]


def check_case(case):
    H.setup_path()
    from ofxtools.Parser import OFXTree
    from pbt.checks.c02 import disambiguate

    desc, sgml, seed = case["doc"], case["sgml"], case["style"]
    tree = disambiguate(D.to_tree(desc, seed, sgml))
    body = X.render(tree)
    v = X.classify(body)
    if v[0] != X.WELL_FORMED:
        raise H.HarnessError(f"generated document not well-formed: {v[1]}: {body[:300]!r}")
    data = D.file_bytes(body, sgml, case.get("version"))
    exp = D.expected(desc)
    with warnings.catch_warnings():
        warnings.simplefilter("ignore")
        tmpf = None
        try:
            t = OFXTree()
            if int(H.chash(data.hex())[-1], 16) % 4 == 0:
                # a quarter of the documents are read from a file given by name, as a user of the parser would
                fd, tmpf = tempfile.mkstemp(prefix="verif_c03_", suffix=".ofx")
                os.write(fd, data)
                os.close(fd)
                t.parse(tmpf)
            else:
                t.parse(io.BytesIO(data))
            model = t.convert()
        except Exception as e:
            if tmpf:
                os.unlink(tmpf)
                tmpf = None
            return [(f"valid-document-rejected/{_culprit(desc)}", f"{desc['cls']}: {e!r} body={body[:400]!r}")]
    if tmpf:
        os.unlink(tmpf)
    act = [(p, a, D.actual_value(val)) for p, a, val in M.walk(model)]
    out = []
    emap = {(p, a): v for p, a, v in exp}
    amap = {(p, a): v for p, a, v in act}
    if len(emap) != len(exp) or len(amap) != len(act):
        raise H.HarnessError("duplicate paths")
    for key, ev in emap.items():
        if key not in amap:
            out.append((f"element-missing-from-model/{ev[0]}", f"{desc['cls']}: {key} expected {ev}; body={body[:300]!r}"))
        elif not D.values_match(ev, amap[key]):
            out.append((f"wrong-value/{ev[0]}", f"{desc['cls']}: {key}: model has {amap[key]!r}, document says {ev!r}"))
        if len(out) > 4:
            break
    for key, av in amap.items():
        if key not in emap:
            out.append((f"value-not-in-document/{av[0]}", f"{desc['cls']}: {key} = {av!r}"))
            break
    return out


def _culprit(desc):
    return "any"


def doc_stats(desc, acc=None, depth=1):
    acc = acc if acc is not None else {"depth": 0, "offset": 0, "comma": 0, "escaped": 0, "kinds": set()}
    acc["depth"] = max(acc["depth"], depth)
    for v in list(desc["kw"].values()) + list(desc["list"]):
        if M.is_scalar(v):
            acc["kinds"].add(v[0])
            if v[0] in ("dtx", "timex") and v[1].get("off"):
                acc["offset"] += 1
            if v[0] == "dec" and v[2] == ",":
                acc["comma"] += 1
            if v[0] == "str" and (v[2] or any(c in v[1] for c in "&<>")):
                acc["escaped"] += 1
        else:
            doc_stats(v, acc, depth + 1)
    return acc


def _worker(job):
    H.setup_path()
    names, n, seed = job
    s = H.Stats()
    U = M.universe()
    M.LEX_MODE[0] = True
    try:
        for name in names:
            cls = U[name]
            strat = st.builds(lambda d, sg, sty: {"doc": d, "sgml": sg, "style": sty}, M.instance_st(cls), st.booleans(), st.integers(0, 10**6))

            def body(case):
                stt = doc_stats(case["doc"])
                nontrivial = stt["depth"] >= 2 and (stt["offset"] or stt["comma"] or stt["escaped"])
                labs = ["sgml" if case["sgml"] else "xml"] + ["has:" + k for k in sorted(stt["kinds"])]
                if stt["offset"]:
                    labs.append("date-time with non-zero offset")
                if stt["comma"]:
                    labs.append("comma decimal")
                if stt["escaped"]:
                    labs.append("entity-escaped string")
                s.case(case, nontrivial=bool(nontrivial), labels=labs)
                for k, d in check_case(case):
                    s.fail(k, case, d)

            H.hyp_run(strat, body, n, H.derive_seed(seed, name), stats=s)
            s.label("classes covered")
    finally:
        M.LEX_MODE[0] = False
    return s


def _token_worker(job):
    """Enumerated: every declared enumeration token of every class, in a minimal document (plain-mode scalars
    written through the lexical layer), must arrive intact at its place."""
    H.setup_path()
    from ofxtools import Types

    names, stride = job
    s = H.Stats()
    U = M.universe()
    for name in names:
        cls = U[name]
        for attr, kind, t in M.decl(cls):
            tt = t.converter if kind == "listelem" else t
            if kind not in ("elem", "listelem") or not isinstance(tt, Types.OneOf):
                continue
            toks = [x for x in tt.valid if isinstance(x, str)]
            # the tokens of the tree this machinery was built against are the reference set: one that has dropped out of
            # the running library's table is still a token of valid documents
            lost = [x for x in _snapshot().get(name, {}).get(attr, []) if x not in toks]
            if lost:
                s.label("tokens of the baseline missing from the running library's table", len(lost))
            toks = toks + lost
            for i, tok in enumerate(toks):
                if i % stride and i != len(toks) - 1 and tok not in lost:
                    continue
                try:
                    d = M.minimal(cls, with_attr=attr) if kind == "elem" else M.minimal(cls, with_member=["tok", tok])
                    from pbt.checks.c13 import _custom_patch

                    _custom_patch(d, attr)
                except Exception as e:
                    raise H.HarnessError(f"minimal({name}, {attr}): {e!r}")
                if kind == "elem":
                    d["kw"][attr] = ["tok", tok]
                _to_lex(d)
                case = {"doc": d, "sgml": bool(i % 2), "style": i}
                s.case(case, nontrivial=True, labels=["token-sweep"])
                for k, dd in check_case(case):
                    s.fail("token-sweep/" + k, case, f"{name}.{attr}={tok!r}: {dd}")
        s.label("classes swept for tokens")
    return s


_SNAP = []


def _snapshot():
    if not _SNAP:
        import json
        from pathlib import Path

        p = Path(__file__).resolve().parents[1] / "data" / "enum_tokens.json"
        _SNAP.append(json.loads(p.read_text()) if p.exists() else {})
    return _SNAP[0]


STATUS_CODES = [0, 1, 2000, 2003, 2019, 2020, 13504, 15000, 15500, 15501, 15502, 15503, 15504, 15505, 15506, 15507, 15508, 15510, 15511, 15512, 15513, 15514, 16500, 3000]


def _status_worker(names):
    """Every class that carries a STATUS, with every well-known status code x severity and no MESSAGE: the model says
    what the document says - no more (no explanatory text made up for the reader's benefit)."""
    H.setup_path()
    s = H.Stats()
    U = M.universe()
    for name in names:
        cls = U[name]
        if not any(a == "status" and k == "sub" for a, k, t in M.decl(cls)):
            continue
        for code in STATUS_CODES:
            for sev in ("INFO", "WARN", "ERROR"):
                try:
                    d = M.minimal(cls, with_attr="status")
                except Exception as e:
                    raise H.HarnessError(f"minimal({name}, status): {e!r}")
                d["kw"]["status"] = {"cls": "STATUS", "kw": {"code": ["int", code], "severity": ["tok", sev]}, "list": []}
                _to_lex(d)
                case = {"doc": d, "sgml": bool(code % 2), "style": code}
                s.case(case, nontrivial=True, labels=["status sweep"])
                for k, dd in check_case(case):
                    s.fail("status-sweep/" + k, case, f"{name} status {code}/{sev}: {dd}")
    return s


def _to_lex(desc):
    """minimal() yields plain-mode scalars; give them the lexical-description shape check_case expects."""
    def conv(v):
        k = v[0]
        if k == "str":
            return ["str", v[1], 0]
        if k == "dec":
            return ["dec", v[1], ".", False, None] if len(v) == 2 else v
        if k == "dt":
            y, mo, d, h, mi, s_, us, off, name = v[1:]
            return ["dtx", {"y": y, "mo": mo, "d": d, "h": h, "mi": mi, "s": s_, "ms": us // 1000, "notation": "full", "off": off, "sign": "signed", "mins": "auto", "name": name}]
        if k == "time":
            h, mi, s_, us, off = v[1:]
            return ["timex", {"y": 0, "mo": 0, "d": 0, "h": h, "mi": mi, "s": s_, "ms": us // 1000, "notation": "tfull", "off": off, "sign": "signed", "mins": "auto", "name": None}]
        return v

    for a, v in list(desc["kw"].items()):
        if M.is_scalar(v):
            desc["kw"][a] = conv(v)
        else:
            _to_lex(v)
    for i, m in enumerate(desc["list"]):
        if M.is_scalar(m):
            desc["list"][i] = conv(m)
        else:
            _to_lex(m)


def run(ctx):
    names = sorted(M.universe())
    ctx.pmap(_token_worker, [(names[i::32], ctx.scale(4, 1)) for i in range(32)])
    ctx.pmap(_status_worker, [names[i::16] for i in range(16)])
    n = ctx.scale(15, 200)
    shards = [names[i::48] for i in range(48)]
    ctx.pmap(_worker, [(sh, n, ctx.sub_seed("cls")) for sh in shards])
