"""C08 - improperly nested or truncated markup is never silently accepted as a tree."""
from __future__ import annotations

import io
import re
import xml.etree.ElementTree as ET

from hypothesis import strategies as st

from pbt.core import harness as H
from pbt.core import refofx as X
from pbt.checks import c02

PID = "C08"
LEVEL = "exploration"
RULE = (
    "valid bodies (all small trees <=4 nodes enumerated x end-tag choices x 2 gap styles; larger trees sampled with "
    "Hypothesis; library-serialised requests) x fault operators enumerated per document: truncation at every token "
    "boundary (thorough: every byte) before the final end tag, deletion / renaming / duplication of every end tag, "
    "transposition of adjacent different end tags, stray end tag inserted at every token boundary, non-blank text after "
    "every end tag, second top-level element.  A mutant is checked iff the independent strict scanner classifies it "
    "MUST_REJECT (well-formed or ambiguous mutants are counted and skipped).  Every mutant of the real documents and a quarter "
    "of the sampled ones is also delivered as a complete file under a version-1 and a version-2 header (OFXTree.parse); an atheris "
    "campaign asserts rejection of every mutated body the scanner classifies MUST_REJECT.  non-trivial = mutant of a document with >=2 "
    "aggregate levels that is not a cut directly after the root start tag; distinct by hash of the mutant text"
)
ASSUMPTIONS = [
    "rejected = any Exception from feed()/close(), or close() returning something that is not an Element",
    "a dataless start tag not closed by its own end tag is ambiguous (empty data element vs unclosed aggregate): mutants that are well-formed under the lenient reading are not asserted",
    "cuts at or after the first byte of the final end tag are not asserted",
]


def library_accepts(text):
    """True iff the library returns an element tree for this body."""
    from ofxtools.Parser import TreeBuilder

    try:
        b = TreeBuilder()
        b.feed(text)
        root = b.close()
    except Exception:
        return False, None
    return isinstance(root, ET.Element), root


HDR_V1 = "OFXHEADER:100\r\nDATA:OFXSGML\r\nVERSION:102\r\nSECURITY:NONE\r\nENCODING:USASCII\r\nCHARSET:NONE\r\nCOMPRESSION:NONE\r\nOLDFILEUID:NONE\r\nNEWFILEUID:NONE\r\n\r\n"
HDR_V2 = '<?xml version="1.0" encoding="UTF-8" standalone="no"?>\r\n<?OFX OFXHEADER="200" VERSION="203" SECURITY="NONE" OLDFILEUID="NONE" NEWFILEUID="NONE"?>\r\n'


def library_accepts_file(text, hdr=HDR_V1):
    from ofxtools.Parser import OFXTree

    try:
        t = OFXTree()
        root = t.parse(io.BytesIO((hdr + text).encode("utf_8")))
    except Exception:
        return False
    return isinstance(root, ET.Element)


def reason_class(reason):
    if reason.startswith("stray end tag"):
        return "stray-end-tag"
    if "does not close" in reason:
        return "mismatched-end-tag"
    if "never closed" in reason:
        return "unclosed-aggregate-or-truncated"
    if "text outside" in reason:
        return "text-after-end-tag"
    if "second top-level" in reason:
        return "second-top-level-element"
    if "no element" in reason:
        return "empty"
    return "other"


def mutants(text, byte_level=False):
    """Yield (op, mutant_text, by_construction_must_reject)."""
    toks = X.lex(text)
    ends = [t for t in toks if t.kind == "end"]
    final = ends[-1]
    names = sorted({t.val for t in toks if t.kind in ("start", "end")})
    bounds = sorted({t.pos for t in toks} | {t.pos + _toklen(text, t) for t in toks})
    # 1 truncation
    cuts = range(0, final.pos + 1) if byte_level else [b for b in bounds if b <= final.pos]
    for c in cuts:
        yield ("truncate", text[:c], True)
    for e in ends:
        a, b = e.pos, e.pos + len(e.val) + 3
        # 2 deletion
        yield ("delete-end-tag", text[:a] + text[b:], False)
        # 3 renaming
        alts = [n for n in names if n != e.val][:3] + [e.val + "X", e.val[:-1] or "Q", "ZZZ"]
        if e.val[-1:].isdigit():
            # ...MSGSRSV1 -> ...MSGSRSV2 / ...MSGSRSV11: a different name all the same
            alts += [e.val[:-1] + ("2" if e.val[-1] != "2" else "3"), e.val + "1"]
        for alt in dict.fromkeys(alts):
            if alt != e.val:
                yield ("rename-end-tag", text[:a] + "</" + alt + ">" + text[b:], False)
        # 5 duplication
        yield ("duplicate-end-tag", text[:b] + text[a:b] + text[b:], False)
        # 7 text after end tag
        yield ("text-after-end-tag", text[:b] + "junk" + text[b:], False)
        yield ("text-after-end-tag", text[:b] + "\n 12.5 \n" + text[b:], False)
    # 4 transposition of adjacent different end tags
    for e1, e2 in zip(ends, ends[1:]):
        if e1.val != e2.val:
            a1, b1 = e1.pos, e1.pos + len(e1.val) + 3
            a2, b2 = e2.pos, e2.pos + len(e2.val) + 3
            between = text[b1:a2]
            if not between.strip():
                yield ("transpose-end-tags", text[:a1] + text[a2:b2] + between + text[a1:b1] + text[b2:], False)
    # 6 stray end tag at each token boundary
    for bnd in bounds:
        for nm in list(dict.fromkeys([names[0], names[-1]] + names[:6])) + ["ZZZ"]:
            yield ("insert-stray-end-tag", text[:bnd] + "</" + nm + ">" + text[bnd:], False)
    # 8 second top-level element
    yield ("second-root", text + "<ZZZ></ZZZ>", False)
    yield ("second-root", text + text, False)
    yield ("second-root", text + "<ZZZ>x</ZZZ>", False)


def _toklen(text, t):
    if t.kind == "start":
        return len(t.val) + 2
    if t.kind == "end":
        return len(t.val) + 3
    if t.kind == "cdata":
        return len(t.val) + 12
    return len(t.val)


def check_case(case):
    H.setup_path()
    text = case["text"]
    verdict = verdict_of(text, case.get("by_construction"))
    if verdict[0] != X.MUST_REJECT:
        return []
    acc, root = library_accepts(text)
    out = []
    rc = reason_class(verdict[1])
    if acc:
        out.append((f"accepted/{rc}", f"op={case.get('op')} {text!r} ({verdict[1]}) parsed as {X.from_etree(root)!r}"))
    elif case.get("file"):
        # the same body as a complete file, under a version-1 and under a version-2 header
        if library_accepts_file(text, HDR_V1):
            out.append((f"accepted-by-OFXTree/{rc}", f"op={case.get('op')} {text!r}"))
        if library_accepts_file(text, HDR_V2):
            out.append((f"accepted-by-OFXTree-under-v2-header/{rc}", f"op={case.get('op')} {text!r}"))
    return out


_PARTIAL = re.compile(r"<[^>]*$")


def verdict_of(text, truncated=False):
    """Truncations may end inside a tag: the partial tag is dropped before classifying (it cannot repair
    the nesting).  A cut that leaves only dataless, childless open elements is ambiguous (an empty element
    may omit its end tag - the library's own writer does that) and is not asserted."""
    if truncated:
        return X.classify(_PARTIAL.sub("", text))
    return X.classify(text)


def agg_levels(plain):
    tag, data, ch = plain
    if data is not None:
        return 0
    return 1 + max([agg_levels(c) for c in ch], default=0)


_EMPTY_LAST = re.compile(r"<([A-Z0-9._]+)></\1>(\s*</)")


def bare_variants(text):
    """The same body as the library's own end-tag-less writer spells it: an empty aggregate that is the last
    child of its parent written as a bare <TAG>.  Valid under the reading in which a dataless, childless
    element may omit its end tag; every single fault applied to it is still judged by the strict scanner."""
    out = []
    for m in _EMPTY_LAST.finditer(text):
        t = text[: m.start()] + "<" + m.group(1) + ">" + m.group(2) + text[m.end():]
        if X.read_lenient(t) is not None:
            out.append(t)
    return out[:3]


def run_doc(s, text, plain, byte_level, sample_file=False, bare=True):
    if bare:
        for t in bare_variants(text):
            s.label("base-documents-with-bare-empty-aggregate")
            run_doc(s, t, plain, byte_level, sample_file, bare=False)
    levels = agg_levels(plain)
    first_tag_end = text.index(">") + 1
    n = 0
    for op, m, byc in mutants(text, byte_level):
        verdict = verdict_of(m, byc)[0]
        s.label(f"{op}:{verdict}")
        if verdict != X.MUST_REJECT:
            s.evaluations += 1
            continue
        n += 1
        case = {"op": op, "text": m}
        if byc:
            case["by_construction"] = True
        if sample_file and n % (7 if sample_file is True else int(sample_file)) == 0:
            case["file"] = True
        nontrivial = levels >= 2 and not (op == "truncate" and len(m) <= first_tag_end)
        s.case(case, nontrivial=nontrivial, h=H.chash(m))
        for k, d in check_case(case):
            s.fail(k, case, d)


def _enum_worker(job):
    H.setup_path()
    nnodes, shape_idx, scheme, byte_level = job
    s = H.Stats()
    shape = c02.shapes(nnodes)[shape_idx]
    tags = ["OFX", "A1", "B.C", "D_E"] if scheme == 0 else ["T"]
    saved = (c02.SMALL_GAPS, c02.SMALL_DATA)
    c02.SMALL_GAPS, c02.SMALL_DATA = ["", "\n"], ["x y"]
    try:
        docs = 0
        for text, want, unclosed, cd, _ in c02.variants(shape, tags, [0], top=True):
            if cd:
                continue
            docs += 1
            run_doc(s, text, want, byte_level)
        s.label("base-documents-enumerated", docs)
    finally:
        c02.SMALL_GAPS, c02.SMALL_DATA = saved
    return s


def _sample_worker(job):
    H.setup_path()
    n, seed, byte_level = job
    s = H.Stats()

    def body(node):
        text = X.render(node)
        s.label("base-documents-sampled")
        run_doc(s, text, X.plain(node), byte_level, sample_file=4)

    H.hyp_run(c02.tree_st(10), body, n, seed, stats=s)
    return s


REAL_DOCS = [
    "<OFX><SIGNONMSGSRSV1><SONRS><STATUS><CODE>0<SEVERITY>INFO</STATUS><DTSERVER>20200101<LANGUAGE>ENG</SONRS></SIGNONMSGSRSV1>"
    "<SECLISTMSGSRSV1><SECLISTTRNRS><TRNUID>1<STATUS><CODE>0<SEVERITY>INFO</STATUS><SECLISTRS></SECLISTTRNRS><SECLIST></SECLISTMSGSRSV1></OFX>",
    "<OFX><SIGNONMSGSRQV1><SONRQ><DTCLIENT>20200101000000.000[+0:UTC]</DTCLIENT><USERID>u</USERID><USERPASS>p</USERPASS>"
    "<LANGUAGE>ENG</LANGUAGE><APPID>QWIN</APPID><APPVER>2700</APPVER></SONRQ></SIGNONMSGSRQV1><BANKMSGSRQV1><STMTTRNRQ>"
    "<TRNUID>1</TRNUID><STMTRQ><BANKACCTFROM><BANKID>1</BANKID><ACCTID>2</ACCTID><ACCTTYPE>CHECKING</ACCTTYPE></BANKACCTFROM>"
    "<INCTRAN><INCLUDE>Y</INCLUDE></INCTRAN></STMTRQ></STMTTRNRQ></BANKMSGSRQV1></OFX>",
    "<OFX><SIGNONMSGSRSV1><SONRS><STATUS><CODE>0</CODE><SEVERITY>INFO</SEVERITY></STATUS><DTSERVER>20200101</DTSERVER><LANGUAGE>ENG</LANGUAGE></SONRS></SIGNONMSGSRSV1>"
    "<EMAILMSGSRSV1><MAILTRNRS><TRNUID>1</TRNUID><STATUS><CODE>0</CODE><SEVERITY>INFO</SEVERITY></STATUS><MAILRS><MAIL><USERID>u</USERID><DTCREATED>20200101</DTCREATED>"
    "<FROM>bank</FROM><TO>u</TO><SUBJECT>Fees</SUBJECT><MSGBODY>Your fees are due this month.</MSGBODY><INCIMAGES>N</INCIMAGES><USEHTML>N</USEHTML></MAIL></MAILRS></MAILTRNRS></EMAILMSGSRSV1></OFX>",
    "<OFX>\r\n<SIGNONMSGSRSV1>\r\n<SONRS>\r\n<STATUS>\r\n<CODE>0\r\n<SEVERITY>INFO\r\n</STATUS>\r\n<DTSERVER>20200101\r\n<LANGUAGE>ENG\r\n</SONRS>\r\n</SIGNONMSGSRSV1>\r\n</OFX>\r\n",
]


def _real_worker(job):
    H.setup_path()
    s = H.Stats()
    text, byte_level = job
    tree = X.read_lenient(text)
    if tree is None:
        raise H.HarnessError(f"real doc not well-formed: {X.classify(text)}")
    s.label("base-documents-real")
    run_doc(s, text, tree, byte_level, sample_file=1)
    return s


def run(ctx):
    byte_level = ctx.thorough
    jobs = []
    for nn in range(1, 5):
        for i in range(len(c02.shapes(nn))):
            for scheme in (0, 1):
                jobs.append((nn, i, scheme, byte_level))
    ctx.pmap(_enum_worker, jobs)
    n = ctx.scale(40, 1500)
    ctx.pmap(_sample_worker, [(n, ctx.sub_seed(sh), byte_level) for sh in range(16)])
    ctx.pmap(_real_worker, [(d, True) for d in REAL_DOCS])
    # supplementary: coverage-guided byte-level fuzzing (atheris) with the same three-valued oracle inside the target
    from pbt.core import fuzzrun

    res = fuzzrun.campaign("C08", ctx.scale(60000, 1500000), ctx.sub_seed("fuzz"))
    ctx.note("atheris_campaign", {k: v for k, v in res.items() if k != "finding"})
    if "finding" in res:
        case = {"op": "fuzz", "text": res["finding"]["text"]}
        for k, d in check_case(case):  # re-checked outside the fuzzer before anything is reported
            ctx.fail(k, case, d)
    if res.get("counts"):
        ctx.count(res["counts"].get("MUST_REJECT", 0))
        ctx.label("fuzz:MUST_REJECT", res["counts"].get("MUST_REJECT", 0))
