"""C05 - the header parser hands over exactly the body, decoded as the header declares."""
from __future__ import annotations

import io
import os
import itertools

from hypothesis import strategies as st

from pbt.core import harness as H

PID = "C05"
LEVEL = "exploration"
RULE = (
    "v1: field values from their domains (VERSION supported set + any 100-199, SECURITY, ENCODING/CHARSET pairs, optional "
    "COMPRESSION, UIDs) x layout (per-gap separator CRLF/LF/CR/'' uniform or mixed, 0-3 blanks/tabs after each colon, 0-6 "
    "leading blank lines, header/body gap '', ' ', LF, CRLF, CR, several blank lines); v2: XML declaration with ' or \" quotes (chosen per attribute), "
    "gaps '', LF, CRLF, blanks between declarations and body, leading blank lines; body: arbitrary text starting with '<' and "
    "ending with '>' over characters encodable in the declared charset (0x80-0xFF favoured).  Oracle: inverse - header fields "
    "and exact body text are the generated ones.  The separator x gap x charset product is enumerated.  non-trivial = layout "
    "differs from the library's own str(header) layout, or body has a character encoded differently by the three codecs; "
    "distinct by hash of the file bytes"
)
ASSUMPTIONS = [
    "not asserted: blank lines between v1 fields, single-quoted OFX declaration, bodies not starting with '<', non-ASCII header bytes",
    "the declared character set is the CHARSET field (ISO-8859-1 / 1252 / NONE = UTF-8) for every ENCODING value",
    "lenient regime (whitespace after the body) compares after right-stripping both sides",
]

V1_FIELDS = ["OFXHEADER", "DATA", "VERSION", "SECURITY", "ENCODING", "CHARSET", "COMPRESSION", "OLDFILEUID", "NEWFILEUID"]
CODECS = {"ISO-8859-1": "latin_1", "1252": "cp1252", "NONE": "utf_8"}
SEPS = ["\r\n", "\n", "\r", ""]
GAPS = ["", " ", "\n", "\r\n", "\r", "\r\n\r\n", "\n\n\n"]
_HEX = st.text("0123456789abcdefABCDEF", min_size=32, max_size=32)
UID = st.one_of(
    st.text("ABCDEFGHIJKLMNOPQRSTUVWXYZabcdefghijklmnopqrstuvwxyz0123456789_-", min_size=1, max_size=36),
    st.text("ABCDEFGHIJKLMNOPQRSTUVWXYZabcdefghijklmnopqrstuvwxyz0123456789_-", min_size=1, max_size=36),
    # UUID-shaped in the spellings clients produce: upper / mixed case with dashes, 32 hex digits without
    _HEX.map(lambda h: f"{h[:8]}-{h[8:12]}-{h[12:16]}-{h[16:20]}-{h[20:]}"),
    _HEX.map(lambda h: f"{h[:8]}-{h[8:12]}-{h[12:16]}-{h[16:20]}-{h[20:]}".upper()),
    _HEX,
    st.sampled_from(["null", "NULL", "None", "none", "nil", "0", "false", "N", "NaN", "-", "_", "NONE-2024-01", "NONESUCH_2", "NONE1", "xNONE", "NONENONE"]),
)
ENTITY_BITS = ["e\u0301", "\u212b", "\uf900", "?>", "<?", "\n", "\n\n\n", "\r\n", "&#60;", "&#38;", "&#x3C;", "&#62;", "&amp;", "&lt;", "&#233;", "&#0;", "&nbsp;", "&", ";", "#"]

ALL_PAIRS = [(e, c) for e in ("USASCII", "UNICODE", "UTF-8") for c in ("ISO-8859-1", "1252", "NONE")]
CP1252_CHARS = "".join(bytes([b]).decode("cp1252") for b in range(0x80, 0x100) if b not in (0x81, 0x8D, 0x8F, 0x90, 0x9D))
LATIN1_CHARS = "".join(chr(c) for c in range(0x80, 0x100))


def _encodable(bits, charset, ascii_only):
    codec = "ascii" if ascii_only else CODECS[charset]
    out = []
    for b in bits:
        try:
            b.encode(codec)
            out.append(b)
        except UnicodeEncodeError:
            pass
    return out


def body_st(charset, ascii_only=False):
    if ascii_only:
        alpha = st.characters(min_codepoint=0x20, max_codepoint=0x7E)
    elif charset == "1252":
        alpha = st.one_of(st.sampled_from(CP1252_CHARS), st.characters(min_codepoint=0x20, max_codepoint=0x7E), st.sampled_from("\r\n\t"))
    elif charset == "ISO-8859-1":
        alpha = st.one_of(st.sampled_from(LATIN1_CHARS), st.characters(min_codepoint=0x20, max_codepoint=0x7E), st.sampled_from("\r\n\t"))
    else:
        alpha = st.one_of(st.characters(min_codepoint=0x20, max_codepoint=0x2FFF, exclude_categories=("Cs", "Cn")), st.sampled_from("\r\n\t€漢💩"))
    inner = inner_small = st.one_of(
        st.sampled_from(["OFX><A>x</A></OFX", "OFX>\r\n<A>1\r\n</OFX", "A", "a>b<c", "OFX><A>AT&#38;T &#60;b&#62;</A></OFX", "OFX>" + "\n<A>1".join(["", "", "", "", "", "", "", "", "", "", "", ""]) + "\n</OFX", "OFX><A>ready?>go</A></OFX", "OFX><A>1</A></OFX><OFX><A>2</A></OFX", "OFX><A>1</A></OFX>\n<!-- trailer --", "OFX><A>Ã©</A></OFX", "A>Â£5 Ã¤</A"] + (["A>â‚¬ â€œqâ€\u009d</A".replace("\u009d", "")] if charset == "1252" else []) if not ascii_only and charset != "NONE" else ["OFX><A>x</A></OFX", "OFX><A>1</A></OFX><OFX><A>2</A></OFX", "OFX><A>1</A></OFX>\n<!-- trailer --", "A"]),
        st.text(alpha, min_size=0, max_size=30),
        # entity and character-reference spellings are body text like any other: the header parser hands them over verbatim
        st.lists(st.one_of(st.sampled_from(_encodable(ENTITY_BITS, charset, ascii_only)), st.text(alpha, min_size=0, max_size=4)), min_size=1, max_size=8).map("".join),
    )
    if not ascii_only:
        # now and then a body well beyond any read-buffer size (8 KiB, 16 KiB, 64 KiB), filled with multi-byte characters so
        # that a character sits across every block boundary whatever the header length
        ch = "\u00e9" if charset in ("1252", "ISO-8859-1") else "\u6f22\u00e9"
        big = st.builds(lambda n, k: "A>" + (ch * n)[: n] + "x" * k + "</A", st.sampled_from([4200, 9000, 23000, 70000]), st.integers(0, 3))
        inner = st.integers(0, 24).flatmap(lambda i: big if i == 0 else inner_small)
    return inner.map(lambda s: "<" + s + ">")


@st.composite
def v1_case(draw):
    # every ENCODING x CHARSET combination of the two field domains: the character set is what CHARSET declares
    enc, cs = draw(st.sampled_from(ALL_PAIRS))
    vals = {
        "OFXHEADER": "100",
        "DATA": "OFXSGML",
        "VERSION": str(draw(st.one_of(st.sampled_from([102, 103, 151, 160]), st.integers(100, 199)))),
        "SECURITY": draw(st.sampled_from(["NONE", "TYPE1"])),
        "ENCODING": enc,
        "CHARSET": cs,
        "COMPRESSION": "NONE",
        "OLDFILEUID": draw(st.one_of(st.just("NONE"), UID)),
        "NEWFILEUID": draw(st.one_of(st.just("NONE"), UID)),
    }
    has_comp = draw(st.integers(0, 4)) != 0
    uniform = draw(st.booleans())
    nsep = 8
    if uniform:
        seps = [draw(st.sampled_from(SEPS))] * nsep
    else:
        seps = draw(st.lists(st.sampled_from(SEPS), min_size=nsep, max_size=nsep))
    blanks = draw(st.lists(st.sampled_from(["", "", " ", "\t", "  ", " \t "]), min_size=9, max_size=9))
    lead = draw(st.sampled_from(["", "", "\n", "\r\n", "\n\n", "\r\n\r\n\r\n", "  \n", "\n" * 6, "\r", "\r\r\r", " \r", "\n\r\r"]))
    gap = draw(st.sampled_from(GAPS))
    body = draw(body_st(cs, ascii_only=(enc == "USASCII" and cs == "NONE" and draw(st.booleans()))))
    trail = draw(st.sampled_from(["", "", "", "\n", "\r\n", " \n\n"]))
    return {"kind": "v1", "vals": vals, "has_comp": has_comp, "seps": seps, "blanks": blanks, "lead": lead, "gap": gap, "body": body, "trail": trail}


@st.composite
def v2_case(draw):
    vals = {
        "OFXHEADER": "200",
        "VERSION": str(draw(st.sampled_from([200, 201, 202, 203, 210, 211, 220]))),
        "SECURITY": draw(st.sampled_from(["NONE", "TYPE1"])),
        "OLDFILEUID": draw(st.one_of(st.just("NONE"), UID)),
        "NEWFILEUID": draw(st.one_of(st.just("NONE"), UID)),
    }
    q = draw(st.sampled_from(['"', "'"]))
    # each attribute of the XML declaration chooses its own quote character
    qs = [q, q, q] if draw(st.booleans()) else [draw(st.sampled_from(['"', "'"])) for _ in range(3)]
    g1 = draw(st.sampled_from(["", "\n", "\r\n", " ", "\r\n\r\n", "\r"]))
    g2 = draw(st.sampled_from(["", "\n", "\r\n", " ", "\r\n\r\n", "\r"]))
    lead = draw(st.sampled_from(["", "", "\n", "\r\n", "\n\n\n", "\n" * 6]))
    inner_ws = draw(st.sampled_from([" ", " ", "  ", "\n", "\r\n "]))
    body = draw(body_st("NONE"))
    trail = draw(st.sampled_from(["", "", "", "\n", "\r\n"]))
    enc_name = draw(st.sampled_from(["UTF-8", "utf-8"]))
    return {"kind": "v2", "vals": vals, "q": q, "g1": g1, "g2": g2, "lead": lead, "ws": inner_ws, "body": body, "trail": trail, "enc": enc_name, "qs": qs}


def build(case):
    """-> (file_bytes, codec)"""
    if case["kind"] == "v1":
        vals = case["vals"]
        fields = [f for f in V1_FIELDS if f != "COMPRESSION" or case["has_comp"]]
        parts = []
        seps = list(case["seps"])
        for i, f in enumerate(fields):
            parts.append(f + ":" + case["blanks"][i] + vals[f])
            if i < len(fields) - 1:
                parts.append(seps[i])
        head = case["lead"] + "".join(parts) + case["gap"]
        codec = CODECS[vals["CHARSET"]]
        return head.encode("ascii") + (case["body"] + case["trail"]).encode(codec), codec
    q = case["q"]
    vals = case["vals"]
    q1, q2, q3 = case.get("qs", [q, q, q])
    xml = f"<?xml version={q1}1.0{q1} encoding={q2}{case['enc']}{q2} standalone={q3}no{q3}?>"
    ws = case["ws"]
    ofx = "<?OFX" + ws + ws.join(f'{k}="{vals[k]}"' for k in ["OFXHEADER", "VERSION", "SECURITY", "OLDFILEUID", "NEWFILEUID"]) + "?>"
    text = case["lead"] + xml + case["g1"] + ofx + case["g2"] + case["body"] + case["trail"]
    return text.encode("utf_8"), "utf_8"


def _layout_key(case):
    if case["kind"] == "v2":
        return "v2"
    seps = set(case["seps"])
    k = []
    if "" in seps or "\r" in seps:
        k.append("fields-share-a-line")
    if case["gap"] == "":
        k.append("body-glued")
    elif case["gap"] in (" ", "\r"):
        k.append("body-on-last-header-line")
    return "v1" + ("/" + "+".join(k) if k else "")


def check_case(case):
    H.setup_path()
    from ofxtools.header import parse_header
    from ofxtools.Parser import OFXTree

    data, codec = build(case)
    vals = case["vals"]
    lay = _layout_key(case)
    nonascii = any(ord(c) > 0x7F for c in case["body"])
    suffix = lay + ("/non-ascii-body" if nonascii else "")
    # the source is a binary file object of any kind: in memory, a buffered or an unbuffered real file
    kind = case.get("source") or ["memory", "memory", "buffered-file", "unbuffered-file"][int(H.chash(data.hex())[-1], 16) % 4]
    tmpf = None
    try:
        if kind == "memory":
            src = io.BytesIO(data)
        else:
            import tempfile

            fd, tmpf = tempfile.mkstemp(prefix="verif_c05_")
            os.write(fd, data)
            os.close(fd)
            src = open(tmpf, "rb") if kind == "buffered-file" else open(tmpf, "rb", buffering=0)
        try:
            h, body = parse_header(src)
        finally:
            src.close()
    except Exception as e:
        return [(f"valid-file-rejected/{suffix}", f"{data[:300]!r} (source: {kind}): {e!r}")]
    finally:
        if tmpf:
            os.unlink(tmpf)
    out = []
    if kind != "memory":
        suffix += "/" + kind
    fields = [f for f in vals if f != "COMPRESSION" or case.get("has_comp", True)]
    got = {f: str(getattr(h, f.lower())) for f in fields}
    want = {f: vals[f] for f in fields}
    if got != want:
        out.append((f"header-fields-differ/{lay}", f"{data!r}: {got} != {want}"))
    wb = case["body"]
    if case["trail"]:
        body_c, wb_c = body.rstrip(), (wb + case["trail"]).rstrip()
    else:
        body_c, wb_c = body, wb
    if body_c != wb_c:
        if wb_c.endswith(body_c) and len(wb_c) - len(body_c) == 1:
            key = f"body-lost-first-character/{lay}"
        else:
            key = f"body-differs/{suffix}"
        out.append((key, f"{data!r}: body {body!r}, expected {wb!r}"))
    if hasattr(OFXTree, "_read"):  # the file-reading step of OFXTree.parse, where it exists as a separate helper
        try:
            h2, body2 = OFXTree._read(io.BytesIO(data))
            if body2 != body or type(h2) is not type(h):
                out.append(("OFXTree-read-disagrees", f"{data!r}"))
        except Exception as e:
            out.append(("OFXTree-read-raises", f"{data!r}: {e!r}"))
    return out


def _nontrivial(case):
    body = case["body"]
    differs = False
    for ch in body:
        if ord(ch) > 0x7F:
            encs = set()
            for c in ("latin_1", "cp1252", "utf_8"):
                try:
                    encs.add(ch.encode(c))
                except UnicodeEncodeError:
                    encs.add(None)
            if len(encs) > 1:
                differs = True
    if case["kind"] == "v1":
        own = set(case["seps"]) == {"\r\n"} and not any(case["blanks"]) and case["lead"] == "" and case["gap"] == "\r\n" and case["has_comp"]
    else:
        own = case["q"] == '"' and case["g1"] == "\r\n" and case["g2"] == "\r\n" and case["lead"] == "" and case["ws"] == " "
    return differs or not own


def _labels(case):
    labs = [case["kind"], "layout:" + _layout_key(case)]
    if case["kind"] == "v1":
        labs.append("charset:" + case["vals"]["CHARSET"])
        labs.append("seps:" + ("uniform" if len(set(case["seps"])) == 1 else "mixed"))
        if not case["has_comp"]:
            labs.append("no COMPRESSION field")
    if case["lead"]:
        labs.append("leading blank lines")
    if case["trail"]:
        labs.append("lenient: trailing whitespace")
    if any(ord(c) > 0x7F for c in case["body"]):
        labs.append("non-ascii body")
    if "&#" in case["body"]:
        labs.append("character reference in body")
    if len(set(case.get("qs", ["x"]))) > 1:
        labs.append("mixed quote characters in XML declaration")
    import re as _re

    if any(_re.fullmatch(r"[0-9a-fA-F]{32}|[0-9a-fA-F-]{36}", case["vals"][k]) for k in ("OLDFILEUID", "NEWFILEUID")):
        labs.append("UUID-shaped file uid")
    return labs


def _worker(job):
    H.setup_path()
    which, n, seed = job
    s = H.Stats()

    def body(c):
        data, _ = build(c)
        s.case(c, nontrivial=_nontrivial(c), labels=_labels(c), h=H.chash(data.hex()))
        for k, d in check_case(c):
            s.fail(k, c, d)

    H.hyp_run(v1_case() if which == "v1" else v2_case(), body, n, seed, stats=s)
    return s


def _enum_worker(job):
    """Enumerated: uniform separator x gap x charset x glued-body variants."""
    H.setup_path()
    s = H.Stats()
    for sep, gap, (enc, cs), comp, lead in job:
        bodies = {"ISO-8859-1": "<A>caf\xe9 \x85\xa0</A>", "1252": "<A>€’\xe9</A>", "NONE": "<A>€漢</A>"}
        body = bodies[cs]
        c = {
            "kind": "v1",
            "vals": {"OFXHEADER": "100", "DATA": "OFXSGML", "VERSION": "102", "SECURITY": "NONE", "ENCODING": enc, "CHARSET": cs, "COMPRESSION": "NONE", "OLDFILEUID": "NONE", "NEWFILEUID": "uid-1_Z"},
            "has_comp": comp,
            "seps": [sep] * 8,
            "blanks": [""] * 9,
            "lead": lead,
            "gap": gap,
            "body": body,
            "trail": "",
        }
        data, _ = build(c)
        s.case(c, nontrivial=_nontrivial(c), labels=["enumerated-layout"] + _labels(c), h=H.chash(data.hex()))
        for k, d in check_case(c):
            s.fail(k, c, d)
    return s


def run(ctx):
    pairs = ALL_PAIRS
    prod = list(itertools.product(SEPS, GAPS, pairs, (True, False), ("", "\n", "\r\n\r\n", "\r\r\r")))
    ctx.pmap(_enum_worker, [prod[i::16] for i in range(16)])
    ctx.note("enumerated_layout_product", len(prod))
    n = ctx.scale(1500, 25000)
    jobs = [("v1", n, ctx.sub_seed("v1", sh)) for sh in range(10)] + [("v2", n, ctx.sub_seed("v2", sh)) for sh in range(6)]
    ctx.pmap(_worker, jobs)
