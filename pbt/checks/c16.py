"""C16 - shortcuts and flat attribute access agree with the full path; misses are clean."""
from __future__ import annotations

import copy
import pickle
import warnings

from hypothesis import strategies as st

from pbt.core import harness as H
from pbt.core import modelgen as M
from pbt.core import docgen as D

PID = "C16"
LEVEL = "exploration"
RULE = (
    "Hypothesis-generated valid instances of every class (plus extra, denser OFX roots and message sets mixing bank / "
    "credit-card / investment statement and closing-statement wrappers, SECLISTs); three in five instances are not built by "
    "the constructor but obtained by parsing the same description as an element tree / XML / SGML document, most of those with "
    "1-3 unknown or vendor tags inserted (C07's contaminator: names of other classes' attributes included).  (1) flat access: the set of aggregates "
    "reachable through present non-repeated sub-aggregates is computed from declarations; for every name declared by exactly "
    "one of them and by no other class on the way (nor as any class attribute / property / method) getattr(instance, name) must "
    "return the stored object.  (2) shortcuts (statements, securities, signon, statement, profile, account, transactions, "
    "balance(s), positions, org, fid, curtype/cursym/currate) against explicit path walkers, identity-compared, document order. "
    "(3) misses: undefined and dunder names -> hasattr False, getattr default, AttributeError; copy, deepcopy, pickle (all "
    "protocols) succeed and compare structurally equal, deep copies share no aggregate.  non-trivial = instance with >=1 "
    "list member and >=2 aggregate levels; distinct by description hash"
)
ASSUMPTIONS = [
    "document order of OFX.statements = declaration order of the message sets, then member order",
    "SONRS.org/fid are only asserted when FI is present",
]

STATEMENT_WRAPPERS = {
    "STMTTRNRQ": "stmtrq", "STMTENDTRNRQ": "stmtendrq", "CCSTMTTRNRQ": "ccstmtrq", "CCSTMTENDTRNRQ": "ccstmtendrq", "INVSTMTTRNRQ": "invstmtrq",
    "STMTTRNRS": "stmtrs", "STMTENDTRNRS": "stmtendrs", "CCSTMTTRNRS": "ccstmtrs", "CCSTMTENDTRNRS": "ccstmtendrs", "INVSTMTTRNRS": "invstmtrs",
}
MSGSETS_WITH_STATEMENTS = ["bankmsgsrqv1", "creditcardmsgsrqv1", "invstmtmsgsrqv1", "bankmsgsrsv1", "creditcardmsgsrsv1", "invstmtmsgsrsv1"]
SIMPLE_SHORTCUTS = {
    "STMTRS": {"account": "bankacctfrom", "transactions": "banktranlist", "balance": "ledgerbal"},
    "CCSTMTRS": {"account": "ccacctfrom", "transactions": "banktranlist", "balance": "ledgerbal"},
    "INVSTMTRS": {"account": "invacctfrom", "transactions": "invtranlist", "positions": "invposlist", "balances": "invbal"},
    "STMTTRNRS": {"statement": "stmtrs"},
    "CCSTMTTRNRS": {"statement": "ccstmtrs"},
    "CCSTMTENDTRNRS": {"statement": "ccstmtendrs"},
    "INVSTMTTRNRS": {"statement": "invstmtrs"},
    "PROFTRNRS": {"profile": "profrs"},
}
MISS_NAMES = ["zz_undefined", "nosuchattr", "_private_x", "__nonexistent__", "__setstate__", "__deepcopy__", "__fspath__", "__html__"]


def members(inst):
    return list(list.__iter__(inst))


def expected_statements_of_msgset(msgs):
    out = []
    for m in members(msgs):
        attr = STATEMENT_WRAPPERS.get(type(m).__name__)
        if attr is not None:
            st_ = M.stored(m, attr)
            if st_ is not None:
                out.append(st_)
    return out


def reachable(inst):
    """Aggregates reachable from inst through present non-repeated sub-aggregates (excluding inst)."""
    from ofxtools.models.base import Aggregate

    out, todo = [], [inst]
    while todo:
        x = todo.pop(0)
        for attr, kind, t in M.decl(type(x)):
            if kind == "sub":
                v = M.stored(x, attr)
                if isinstance(v, Aggregate):
                    out.append(v)
                    todo.append(v)
    return out


def same(a, b):
    from ofxtools.models.base import Aggregate

    if isinstance(a, Aggregate) or isinstance(b, Aggregate):
        return a is b
    return type(a) is type(b) and a == b


def check_instance(inst, miss_names):
    from ofxtools.models.base import Aggregate

    out = []
    cls = type(inst)
    name = cls.__name__
    # (1) flat access
    cands = reachable(inst)
    definers = {}
    for d in cands:
        for attr, kind, t in M.decl(type(d)):
            if kind in ("elem", "sub"):
                definers.setdefault(attr, []).append(d)
    all_on_path = [inst] + cands
    for n, ds in sorted(definers.items()):
        if len(ds) != 1:
            continue
        d = ds[0]
        if hasattr(type(inst), n):
            continue
        if any(x is not d and hasattr(type(x), n) for x in all_on_path):
            continue
        want = M.stored(d, n)
        try:
            got = getattr(inst, n)
        except Exception as e:
            out.append((f"flat-access-raises/{type(e).__name__}", f"{name}.{n} (defined by {type(d).__name__}): {e!r}"))
            continue
        if not same(got, want):
            out.append(("flat-access-wrong-object", f"{name}.{n}: got {got!r}, stored in {type(d).__name__}: {want!r}"))
    # (2) shortcuts
    def shortcut(obj, sc, want, cmp_list=False):
        try:
            got = getattr(obj, sc)
        except Exception as e:
            out.append((f"shortcut-raises/{type(obj).__name__}.{sc}", f"{e!r}"))
            return
        if cmp_list:
            ok = isinstance(got, list) and len(got) == len(want) and all(g is w for g, w in zip(got, want))
        else:
            ok = same(got, want)
        if not ok:
            out.append((f"shortcut-wrong/{type(obj).__name__}.{sc}", f"got {got!r}, full path gives {want!r}"))

    for x in [inst] + walk_all(inst):
        xn = type(x).__name__
        for sc, attr in SIMPLE_SHORTCUTS.get(xn, {}).items():
            shortcut(x, sc, M.stored(x, attr))
        if xn in ("BANKMSGSRQV1", "CREDITCARDMSGSRQV1", "INVSTMTMSGSRQV1", "BANKMSGSRSV1", "CREDITCARDMSGSRSV1", "INVSTMTMSGSRSV1"):
            shortcut(x, "statements", expected_statements_of_msgset(x), cmp_list=True)
        if xn == "SECLISTMSGSRSV1":
            want = [s for m in members(x) if type(m).__name__ == "SECLIST" for s in members(m)]
            shortcut(x, "securities", want, cmp_list=True)
        if xn == "OFX":
            want = []
            for attr, kind, t in M.decl(type(x)):
                if attr in MSGSETS_WITH_STATEMENTS and M.stored(x, attr) is not None:
                    want += expected_statements_of_msgset(M.stored(x, attr))
            shortcut(x, "statements", want, cmp_list=True)
            sl = M.stored(x, "seclistmsgsrsv1")
            want = [s for m in members(sl) if type(m).__name__ == "SECLIST" for s in members(m)] if sl is not None else []
            shortcut(x, "securities", want, cmp_list=True)
            so = M.stored(x, "signonmsgsrqv1")
            if so is not None:
                shortcut(x, "signon", M.stored(so, "sonrq"))
            else:
                shortcut(x, "signon", M.stored(M.stored(x, "signonmsgsrsv1"), "sonrs"))
        if xn == "SONRS" and M.stored(x, "fi") is not None:
            shortcut(x, "org", M.stored(M.stored(x, "fi"), "org"))
            shortcut(x, "fid", M.stored(M.stored(x, "fi"), "fid"))
        if any(b.__name__ == "Origcurrency" for b in type(x).__mro__):
            cur = M.stored(x, "currency")
            if cur is None:
                cur = M.stored(x, "origcurrency")
            shortcut(x, "curtype", type(cur).__name__ if cur is not None else None)
            shortcut(x, "cursym", M.stored(cur, "cursym") if cur is not None else None)
            shortcut(x, "currate", M.stored(cur, "currate") if cur is not None else None)
    # (3) misses
    sentinel = object()
    for n in miss_names:
        if hasattr(type(inst), n) or n in definers or any(hasattr(type(x), n) for x in all_on_path):
            continue  # defined after all: by the class, or by a reachable sub-aggregate (element or property: flat access)
        try:
            if hasattr(inst, n):
                out.append(("miss-hasattr-true", f"{name}: hasattr(x, {n!r})"))
        except Exception as e:
            out.append((f"miss-hasattr-raises/{type(e).__name__}", f"{name}: hasattr(x, {n!r}) -> {e!r}"))
        try:
            if getattr(inst, n, sentinel) is not sentinel:
                out.append(("miss-getattr-default-ignored", f"{name}.{n}"))
        except Exception as e:
            out.append((f"miss-getattr-default-raises/{type(e).__name__}", f"{name}.{n} -> {e!r}"))
        try:
            v = getattr(inst, n)
            out.append(("miss-returns-value", f"{name}.{n} = {v!r}"))
        except AttributeError:
            pass
        except Exception as e:
            out.append((f"miss-wrong-exception/{type(e).__name__}", f"{name}.{n} -> {e!r}"))
    # copies
    for label, fn in [("copy", copy.copy), ("deepcopy", copy.deepcopy)] + [(f"pickle{p}", (lambda p: lambda x: pickle.loads(pickle.dumps(x, protocol=p)))(p)) for p in range(0, pickle.HIGHEST_PROTOCOL + 1)]:
        try:
            c = fn(inst)
        except Exception as e:
            out.append((f"{label.rstrip('012345')}-raises/{type(e).__name__}", f"{name}: {e!r}"))
            continue
        df = M.model_diff(inst, c)
        if df:
            out.append((f"{label.rstrip('012345')}-differs", f"{name}: {df[:2]}"))
        elif label != "copy":
            ids = {id(a) for a in [inst] + walk_all(inst)}
            if any(id(a) in ids for a in [c] + walk_all(c)):
                out.append((f"{label.rstrip('012345')}-shares-aggregates", name))
    return out


def walk_all(inst):
    """Every aggregate below inst (sub-aggregates and list members), document order."""
    from ofxtools.models.base import Aggregate

    out = []
    for attr, kind, t in M.decl(type(inst)):
        if kind == "sub":
            v = M.stored(inst, attr)
            if isinstance(v, Aggregate):
                out.append(v)
                out += walk_all(v)
    for m in members(inst):
        if isinstance(m, Aggregate):
            out.append(m)
            out += walk_all(m)
    return out


def _grow(inst):
    """Append a copy of an existing member to the first non-empty list found (the instance itself or a message set of an
    OFX root).  -> True if something was added."""
    from ofxtools.models.base import Aggregate

    targets = [inst] + [v for v in (M.stored(inst, a) for a, k, t in M.decl(type(inst)) if k == "sub") if isinstance(v, Aggregate)]
    for x in targets:
        ms = [m for m in members(x) if isinstance(m, Aggregate)]
        if ms and M.member_types(type(x)):
            try:
                x.append(copy.deepcopy(ms[0]))
                return True
            except Exception:
                return False
    return False


def check_case(case):
    H.setup_path()
    with warnings.catch_warnings():
        warnings.simplefilter("ignore")
        names = list(case.get("names", MISS_NAMES))
        via = case.get("via")
        try:
            if via:
                # "every model instance" includes the ones a parser hands out: the same description as a document
                # (date-times in offset notation, strings escaped), optionally with unknown / vendor tags in it (C07: they
                # are ignored) - some of them named like attributes that exist further down
                from ofxtools.models.base import Aggregate
                from pbt.checks import c07

                tree = D.to_etree(case["inst"])
                if case.get("ins"):
                    c07.contaminate(tree, case["inst"], case["ins"])
                    names += [t.lower() for t in c07.UNKNOWN_LEAF + c07.UNKNOWN_AGG] + ["intu.bid", "bid"]
                inst = Aggregate.from_etree(tree) if via == "etree" else c07.convert_via(via, tree)
            else:
                inst = M.build(case["inst"])
        except Exception:
            return []
        res = check_instance(inst, names)
        if via:
            res = [(k + "/parsed-instance", d) for k, d in res]
        # the shortcuts are views of the tree as it is now: after a list member has been added, they still agree with
        # the full path
        grown = _grow(inst)
        if grown:
            res += [(k + "/after-a-member-was-added", d) for k, d in check_instance(inst, names[:1]) if k.startswith("shortcut")]
    # one failure per key is enough
    seen, out = set(), []
    for k, d in res:
        if k not in seen:
            seen.add(k)
            out.append((k, d))
    return out


MSGSET_WRAPPERS = {
    "BANKMSGSRQV1": ["STMTTRNRQ", "STMTENDTRNRQ"], "BANKMSGSRSV1": ["STMTTRNRS", "STMTENDTRNRS"],
    "CREDITCARDMSGSRQV1": ["CCSTMTTRNRQ", "CCSTMTENDTRNRQ"], "CREDITCARDMSGSRSV1": ["CCSTMTTRNRS", "CCSTMTENDTRNRS"],
    "INVSTMTMSGSRQV1": ["INVSTMTTRNRQ"], "INVSTMTMSGSRSV1": ["INVSTMTTRNRS"],
}


@st.composite
def statement_msgset(draw, name):
    """A message set whose members are statement and closing-statement wrappers only, interleaved in any order, each
    actually carrying its statement."""
    U = M.universe()
    members = []
    for _ in range(draw(st.integers(2, 6))):
        w = draw(st.sampled_from(MSGSET_WRAPPERS[name]))
        d = draw(M.instance_st(U[w], depth=2, max_members=1, p0=0.3))
        attr = STATEMENT_WRAPPERS[w]
        if attr not in d["kw"]:
            inner = {a: t for a, k, t in M.decl(U[w])}[attr].__type__
            d["kw"][attr] = M.minimal(inner)
        members.append(d)
    return {"cls": name, "kw": {}, "list": members}


@st.composite
def statement_ofx(draw):
    side = draw(st.sampled_from(["RQ", "RS"]))
    U = M.universe()
    kw = {}
    so = "SIGNONMSGS" + side + "V1"
    kw[so.lower()] = M.minimal(U[so])
    for ms in ("BANKMSGS", "CREDITCARDMSGS", "INVSTMTMSGS"):
        if draw(st.booleans()):
            kw[(ms + side + "V1").lower()] = draw(statement_msgset(ms + side + "V1"))
    return {"cls": "OFX", "kw": kw, "list": []}


DENSE = ["OFX", "BANKMSGSRQV1", "BANKMSGSRSV1", "CREDITCARDMSGSRQV1", "CREDITCARDMSGSRSV1", "INVSTMTMSGSRQV1", "INVSTMTMSGSRSV1", "SECLISTMSGSRSV1", "STMTRS", "CCSTMTRS", "INVSTMTRS", "SONRS", "STMTTRN", "INVBUY"]


def _worker(job):
    H.setup_path()
    names, n, seed, dense = job
    s = H.Stats()
    U = M.universe()
    for name in names:
        cls = U[name]
        inst_st = M.instance_st(cls, p0=0.85, max_members=4) if dense else M.instance_st(cls)
        def mk(d, extra, via, ins):
            c = {"inst": d, "names": MISS_NAMES + extra}
            if via:
                c["via"] = via
                if ins:
                    c["ins"] = ins
            return c

        strat = st.builds(
            mk, inst_st, st.lists(st.text("abcdefghijklmnopqrstuvwxyz_", min_size=3, max_size=10).map(lambda x: "zz" + x), max_size=2),
            st.sampled_from([None, None, "etree", "xml", "sgml"]),
            st.lists(st.tuples(st.integers(0, 40), st.integers(0, 12), st.integers(0, 4), st.integers(0, 30)).map(list), min_size=0, max_size=3),
        )

        def body(case):
            stt = M.desc_stats(case["inst"])
            labs = ["dense" if dense else "all-classes"]
            kinds = stt["classes"] & set(STATEMENT_WRAPPERS)
            if kinds:
                labs.append("has statement wrappers")
            if any(k.startswith("STMTEND") or k.startswith("CCSTMTEND") for k in kinds):
                labs.append("has closing-statement wrappers")
            if "SECLIST" in stt["classes"]:
                labs.append("has SECLIST")
            if case.get("via"):
                labs.append("instance obtained by parsing" + (" a document with unknown tags" if case.get("ins") else ""))
            s.case(case, nontrivial=stt["members"] >= 1 and stt["depth"] >= 2, labels=labs)
            for k, d in check_case(case):
                s.fail(k, case, d)

        H.hyp_run(strat, body, n, H.derive_seed(seed, name, dense), stats=s)
        s.label("classes covered")
    return s


def _stmt_worker(job):
    H.setup_path()
    which, n, seed = job
    s = H.Stats()
    strat = (statement_ofx() if which == "OFX" else statement_msgset(which)).map(lambda d: {"inst": d, "names": MISS_NAMES[:2]})

    def body(case):
        kinds = [m["cls"] for m in case["inst"]["list"]] if which != "OFX" else [m["cls"] for v in case["inst"]["kw"].values() for m in v["list"]]
        labs = ["statement-focused message set"]
        if len(set(kinds)) >= 2:
            labs.append("statement and closing-statement wrappers interleaved")
        s.case(case, nontrivial=len(kinds) >= 2, labels=labs)
        for k, d in check_case(case):
            s.fail(k, case, d)

    H.hyp_run(strat, body, n, seed, stats=s)
    return s


def run(ctx):
    ns = ctx.scale(15, 200)
    ctx.pmap(_stmt_worker, [(w, ns, ctx.sub_seed("stmt", w)) for w in list(MSGSET_WRAPPERS) + ["OFX", "OFX"]])
    names = sorted(M.universe())
    n = ctx.scale(6, 80)
    jobs = [(names[i::40], n, ctx.sub_seed("all"), False) for i in range(40)]
    nd = ctx.scale(25, 300)
    jobs += [([d], nd, ctx.sub_seed("dense"), True) for d in DENSE]
    ctx.pmap(_worker, jobs)
