"""C10 - element type converters are mutually inverse, canonical and strict at limits."""
from __future__ import annotations

import datetime as dt
import decimal
import warnings

from hypothesis import strategies as st

from pbt.core import harness as H
from pbt.core import reftypes as R

PID = "C10"
LEVEL = "exploration"
RULE = (
    "type parameterisation (Bool, String(n|None), NagString(n), OneOf(random token sets, str or int), Integer(n|None), "
    "Decimal(scale 0..8|None), DateTime, Time, ListElement(each)) x required x one obligation: value round trip "
    "convert(wire(unconvert(v)))==v; text -> canonical text fixed point (and must-accept / must-reject texts with an "
    "independently computed value); None passthrough iff optional; wrong-type / over-limit values refused on write; "
    "NagString warns and keeps.  non-trivial = value or text at a boundary (max length, 10^n-1, 10^n, exact quantum), "
    "non-default parameterisation, or text differing from its canonical form; distinct by case hash"
)
ASSUMPTIONS = [
    "wire(text) = XML escaping of & < > for strings (what the serializer applies), identity otherwise",
    "rejected = any Exception",
    "not asserted: floats, lenient literals (1e3, 1_0, surrounding blanks), negative n-digit integers",
    "not asserted: fixed-scale decimals with more than 20 digits (the library quantizes under the default 28-digit context; no model uses a fixed scale)",
]

PRINTABLE = st.characters(categories=("L", "M", "N", "P", "S", "Zs"))


# ---- building the type under test -------------------------------------------------
def make_type(spec, required):
    from ofxtools import Types

    name = spec[0]
    if name == "Bool":
        t = Types.Bool(required=required)
    elif name == "String":
        t = Types.String(spec[1], required=required)
    elif name == "NagString":
        t = Types.NagString(spec[1], required=required)
    elif name == "OneOf":
        t = Types.OneOf(*spec[1], required=required)
    elif name == "Integer":
        t = Types.Integer(spec[1], required=required)
    elif name == "Decimal":
        t = Types.Decimal(spec[1], required=required)
    elif name == "DateTime":
        t = Types.DateTime(required=required)
    elif name == "Time":
        t = Types.Time(required=required)
    else:
        raise H.HarnessError(spec)
    return t


def wrap(t, as_list):
    from ofxtools import Types

    return Types.ListElement(t) if as_list else t


def untag(v):
    k = v[0]
    if k == "none":
        return None
    if k in ("str", "int", "bool", "float"):
        return v[1]
    if k == "dec":
        return decimal.Decimal(v[1])
    if k == "bytes":
        return v[1].encode()
    if k == "dtz":
        from pbt.checks.c09 import _tz

        y, mo, d, h, mi, s, us, std = v[1:]
        return dt.datetime(y, mo, d, h, mi, s, us, tzinfo=_tz(0, None, False, std))
    if k == "dt":
        y, mo, d, h, mi, s, us, off, name = v[1:]
        tz = dt.timezone(dt.timedelta(minutes=off)) if name is None else dt.timezone(dt.timedelta(minutes=off), name)
        return dt.datetime(y, mo, d, h, mi, s, us, tzinfo=tz)
    if k == "time":
        h, mi, s, us, off = v[1:]
        return dt.time(h, mi, s, us, tzinfo=dt.timezone(dt.timedelta(minutes=off)))
    if k == "naive-dt":
        return dt.datetime(*v[1:])
    if k == "naive-time":
        return dt.time(*v[1:])
    if k == "date":
        return dt.date(*v[1:])
    if k == "list":
        return [untag(x) for x in v[1]]
    raise H.HarnessError(v)


def same_value(spec, a, b):
    """Equality in value AND representation for the type."""
    name = spec[0]
    if a is None or b is None:
        return a is b
    if name == "Decimal":
        return type(a) is type(b) and a == b and a.as_tuple().exponent == b.as_tuple().exponent and a.is_signed() == b.is_signed()
    if name == "DateTime":
        return isinstance(b, dt.datetime) and R.py_instant_us(a) == R.py_instant_us(b)
    if name == "Time":
        return isinstance(b, dt.time) and R.py_time_us(a) == R.py_time_us(b)
    return type(a) is type(b) and a == b


def wire(spec, text):
    if spec[0] in ("String", "NagString") and isinstance(text, str):
        return R.escape_min(text)
    return text


# ---- one case -------------------------------------------------------------------------
def check_case(case):
    H.setup_path()
    from ofxtools import Types

    spec, required, as_list, op = case["type"], case["required"], case.get("list", False), case["op"]
    T = wrap(make_type(spec, required), as_list)
    name = spec[0]
    out = []
    with warnings.catch_warnings(record=True) as wlog:
        warnings.simplefilter("always")
        if op == "value":
            v = untag(case["value"])
            try:
                text = T.unconvert(v)
            except Exception as e:
                return [(f"{name}/domain-value-refused-on-write", f"{T!r}.unconvert({v!r}) raised {e!r}")]
            int_tokens = name == "OneOf" and not isinstance(v, str)  # header-style integer tokens are passed through as such
            if not isinstance(text, str) and not int_tokens:
                return [(f"{name}/unconvert-not-text", f"{T!r}.unconvert({v!r}) = {text!r}")]
            try:
                back = T.convert(wire(spec, text))
            except Exception as e:
                return [(f"{name}/written-text-rejected-on-read", f"{v!r} -> {text!r} -> {e!r}")]
            if not same_value(spec, v, back):
                out.append((f"{name}/value-roundtrip", f"{T!r}: {v!r} -> {text!r} -> {back!r}"))
            # python-value passthrough: convert(v) keeps a valid native value
            try:
                pv = T.convert(v)
                if name not in ("String", "NagString") and not same_value(spec, v, pv):
                    out.append((f"{name}/native-value-changed", f"{T!r}.convert({v!r}) = {pv!r}"))
            except Exception as e:
                out.append((f"{name}/native-value-rejected", f"{T!r}.convert({v!r}) raised {e!r}"))
        elif op == "twins":
            # values that compare equal but are distinguishable (same amount with another exponent, same instant in
            # another zone), written one after the other: each must round-trip to itself
            for tag in case["values"]:
                v = untag(tag)
                try:
                    back = T.convert(wire(spec, T.unconvert(v)))
                except Exception as e:
                    out.append((f"{name}/twin-value-refused", f"{T!r}: {v!r}: {e!r}"))
                    continue
                ok = same_value(spec, v, back)
                if ok and name in ("DateTime", "Time"):
                    txt = T.unconvert(v)
                    parsed = (R.parse_written_time if name == "Time" else R.parse_written_dt)(txt)
                    want_off = v.utcoffset() // dt.timedelta(minutes=1)
                    ok = parsed is not None and parsed[1] == want_off
                if not ok:
                    out.append((f"{name}/equal-values-not-written-individually", f"{T!r}: after {case['values'][0]!r}: {v!r} -> {T.unconvert(v)!r} -> {back!r}"))
        elif op == "text":
            t = case["text"]
            expect = case.get("expect", "any")
            try:
                v = T.convert(t)
            except Exception as e:
                if expect == "accept":
                    return [(f"{name}/valid-text-rejected" + case.get("keysuffix", ""), f"{T!r}.convert({t!r}) raised {e!r}")]
                return []
            if expect == "reject":
                return [(f"{name}/invalid-text-accepted" + case.get("keysuffix", ""), f"{T!r}.convert({t!r}) = {v!r}")]
            if v is None:
                return [(f"{name}/text-read-as-none", f"{T!r}.convert({t!r}) is None")] if expect == "accept" else []
            # independent expectation of the value, where the generator supplied one
            if "ref" in case:
                ref = untag(case["ref"])
                if name == "Decimal" and spec[1] is not None:
                    q = decimal.Decimal(1).scaleb(-spec[1])
                    if v.as_tuple().exponent != -spec[1] or abs(v - ref) * 2 > q:
                        out.append((f"{name}/scale-not-applied", f"{T!r}.convert({t!r}) = {v!r}, reference {ref!r}"))
                elif not same_value(spec, ref, v):
                    out.append((f"{name}/wrong-value" + case.get("keysuffix", ""), f"{T!r}.convert({t!r}) = {v!r}, reference {ref!r}"))
            # canonical text
            try:
                c1 = T.unconvert(v)
                v1 = T.convert(wire(spec, c1))
                c2 = T.unconvert(v1)
            except Exception as e:
                return out + [(f"{name}/canonical-cycle-raises", f"{t!r} -> {v!r} -> {e!r}")]
            if not same_value(spec, v, v1):
                out.append((f"{name}/canonical-text-reads-differently", f"{t!r} -> {v!r} -> {c1!r} -> {v1!r}"))
            if c1 != c2:
                out.append((f"{name}/canonical-not-fixed-point", f"{t!r} -> {c1!r} -> {c2!r}"))
        elif op == "none":
            for fn, nm in ((T.convert, "convert"), (T.unconvert, "unconvert")):
                try:
                    r = fn(None)
                    if required:
                        out.append((f"{name}/required-none-accepted-{nm}", f"{T!r}.{nm}(None) = {r!r}"))
                    elif r is not None:
                        out.append((f"{name}/none-not-none-{nm}", f"{T!r}.{nm}(None) = {r!r}"))
                except Exception as e:
                    if not required:
                        out.append((f"{name}/optional-none-rejected-{nm}", f"{T!r}.{nm}(None) raised {e!r}"))
        elif op == "bad-value" and case.get("why") == "int-subclass":
            # bool is a subclass of int: the statement lets it be refused (wrong type) or treated as the integer it is,
            # but whatever is written must be the canonical integer text reading back to that integer
            v = untag(case["value"])
            for route in ("unconvert", "convert-then-unconvert"):
                try:
                    r = T.unconvert(v if route == "unconvert" else T.convert(v))
                except Exception:
                    continue
                if not (isinstance(r, str) and R.RE_INT.match(r) and int(r) == int(v)):
                    out.append((f"{name}/int-subclass-written-non-canonically", f"{T!r}: {route}({v!r}) = {r!r}"))
        elif op == "bad-value":
            v = untag(case["value"])
            try:
                r = T.unconvert(v)
                out.append((f"{name}/bad-value-written/{case['why']}", f"{T!r}.unconvert({v!r}) = {r!r}"))
            except Exception:
                pass
        elif op == "bad-native":
            # over-limit native value given to convert (the construction route)
            v = untag(case["value"])
            try:
                r = T.convert(v)
                out.append((f"{name}/bad-value-accepted/{case['why']}", f"{T!r}.convert({v!r}) = {r!r}"))
            except Exception:
                pass
        elif op == "nag":
            v = case["value"][1]
            for fn, nm, arg in ((T.convert, "convert", R.escape_min(v)), (T.unconvert, "unconvert", v)):
                del wlog[:]
                try:
                    r = fn(arg)
                except Exception as e:
                    out.append((f"NagString/overlong-rejected-{nm}", f"{T!r}.{nm}({arg!r}) raised {e!r}"))
                    continue
                if r != v:
                    out.append((f"NagString/overlong-not-kept-whole-{nm}", f"{T!r}.{nm}({arg!r}) = {r!r}"))
                if not any(issubclass(w.category, Types.OFXTypeWarning) for w in wlog):
                    out.append((f"NagString/overlong-no-warning-{nm}", f"{T!r}.{nm}({arg!r})"))
        else:
            raise H.HarnessError(case)
    return out


# ---- strategies -------------------------------------------------------------------------
def dec_text(max_int=12, max_frac=8):
    def one(mi, mf):
        return st.builds(
            lambda sign, ip, sep, fp: sign + ip + (sep + fp if fp else ""),
            st.sampled_from(["", "-", "+"]),
            st.text("0123456789", min_size=1, max_size=mi),
            st.sampled_from([".", ","]),
            st.text("0123456789", min_size=0, max_size=mf),
        )

    if max_int < 12:
        return one(max_int, max_frac)
    # one in ten: more significant digits than any fixed working precision (28, 34, ...) - amounts are exact
    return st.integers(0, 9).flatmap(lambda i: one(40, 25) if i == 0 else one(max_int, max_frac))


def aware_dt():
    return st.builds(
        lambda y, mo, d, h, mi, s, ms, off, name: ["dt", y, mo, min(d, R.days_in_month(y, mo)), h, mi, s, ms * 1000, off, name],
        st.integers(1900, 2200), st.integers(1, 12), st.integers(1, 31), st.integers(0, 23), st.integers(0, 59), st.integers(0, 59),
        st.integers(0, 999), st.integers(-720, 840), st.one_of(st.none(), st.sampled_from(["EST", "X"])),
    )


def aware_time():
    return st.builds(lambda h, mi, s, ms, off: ["time", h, mi, s, ms * 1000, off], st.integers(0, 23), st.integers(0, 59), st.integers(0, 59), st.integers(0, 999), st.integers(-720, 840))


TOKEN = st.text("ABCDEFGHIJKLMNOPQRSTUVWXYZ0123456789-", min_size=1, max_size=8)


@st.composite
def cases(draw):
    name = draw(st.sampled_from(["Bool", "String", "NagString", "OneOf", "Integer", "Decimal", "DateTime", "Time"]))
    required = draw(st.booleans())
    as_list = draw(st.integers(0, 4)) == 0
    c = {"required": required, "list": as_list}
    if name in ("Decimal", "DateTime", "Time") and draw(st.integers(0, 5)) == 0:
        c["op"] = "twins"
        if name == "Decimal":
            c["type"] = ["Decimal", None]
            base = draw(dec_text(max_int=6, max_frac=4))
            d0 = R.decimal_from_text(base)
            txt = format(d0, "f")
            extra = draw(st.integers(1, 3))
            twin = txt + ("0" * extra if "." in txt else "." + "0" * extra)
            c["values"] = [["dec", txt], ["dec", twin]] if draw(st.booleans()) else [["dec", twin], ["dec", txt]]
        else:
            c["type"] = [name]
            v = draw(aware_time() if name == "Time" else aware_dt())
            off2 = draw(st.integers(-720, 840).filter(lambda o: o != v[-2 if name == "DateTime" else -1]))
            if name == "DateTime":
                a = untag(v)
                b = a.astimezone(dt.timezone(dt.timedelta(minutes=off2)))
                if not (1900 <= b.year <= 2200):
                    off2 = 0 if v[-2] != 0 else 60
                    b = a.astimezone(dt.timezone(dt.timedelta(minutes=off2)))
                c["values"] = [v, ["dt", b.year, b.month, b.day, b.hour, b.minute, b.second, b.microsecond, off2, None]]
            else:
                h, mi, s_, us, off = v[1:]
                loc = (((h * 60 + mi) * 60 + s_) * 10**6 + us + (off2 - off) * 60 * 10**6) % R.US_DAY
                hh, rem = divmod(loc, 3600 * 10**6)
                mm, rem = divmod(rem, 60 * 10**6)
                ss, us2 = divmod(rem, 10**6)
                c["values"] = [v, ["time", hh, mm, ss, us2, off2]]
        return c
    op = draw(st.sampled_from(["value", "value", "text", "text", "text", "none", "bad-value", "bad-native"]))
    if name == "Bool":
        c["type"] = ["Bool"]
        if op == "value":
            c["value"] = ["bool", draw(st.booleans())]
        elif op == "text":
            if draw(st.booleans()):
                b = draw(st.booleans())
                c.update(text="Y" if b else "N", expect="accept", ref=["bool", b])
            else:
                c.update(text=draw(st.one_of(st.sampled_from(["y", "n", "T", "F", "1", "0", "YES", "NO", " Y", "Y ", "true", "YN"]), st.text(PRINTABLE, min_size=1, max_size=3).filter(lambda s: s not in ("Y", "N")))), expect="reject")
        elif op in ("bad-value", "bad-native"):
            c.update(value=draw(st.sampled_from([["str", "Y"], ["str", "maybe"], ["int", 1], ["int", 0], ["float", 1.0], ["bytes", "Y"]])), why="wrong-type")
            if op == "bad-native" and c["value"][0] == "str":
                c["value"] = ["int", 1]
    elif name in ("String", "NagString"):
        n = draw(st.one_of(st.none(), st.integers(1, 40))) if name == "String" else draw(st.integers(1, 40))
        c["type"] = [name, n]
        maxlen = n if n is not None else 60
        at_limit = draw(st.booleans())
        s = draw(st.text(PRINTABLE, min_size=maxlen if at_limit else 1, max_size=maxlen))
        if draw(st.integers(0, 5)) == 0:
            ent = draw(st.sampled_from(["&amp;", "&lt;", "&gt;", "&nbsp;", "&apos;", "&quot;", "&", "<", ">", "&#38;", "]]>"]))
            s = (s[: max(0, maxlen - len(ent))] + ent)[:maxlen] or "x"
        if op == "value":
            c["value"] = ["str", s]
        elif op == "text":
            # the text is the escaped spelling of s, with optional entity spellings of quotes / blank
            t = R.escape_min(s)
            style = draw(st.integers(0, 3))
            if style == 1:
                t = t.replace('"', "&quot;").replace("'", "&apos;")
            elif style == 2:
                t = t.replace(" ", "&nbsp;")
            c.update(text=t, expect="accept", ref=["str", s.replace(" ", " ")])
        elif op in ("bad-value", "bad-native"):
            if n is not None and name == "String" and draw(st.booleans()):
                extra = draw(st.integers(1, 3))
                if op == "bad-native":
                    # the construction route applies the wire decoder to Python values, so an
                    # entity-looking value may legitimately shrink: keep this class entity-free
                    s = s.replace("&", "+")
                pad = draw(st.sampled_from(["x", "x", " ", "\u00a0", "\u0301"]))
                # the excess may consist of anything - blanks, no-break spaces, combining marks
                c.update(value=["str", s + "x" * (n - len(s)) + pad * extra if len(s) <= n else s + pad * extra], why="over-length")
            elif name == "NagString" and draw(st.booleans()):
                c["op"] = "nag"
                c["value"] = ["str", s + "y" * (n + draw(st.integers(1, 3)) - len(s))]
                c["type"] = c["type"]
                return c
            else:
                c.update(value=draw(st.sampled_from([["int", 5], ["bytes", "abc"], ["float", 1.5], ["bool", True], ["list", [["str", "a"]]]])), why="wrong-type")
    elif name == "OneOf" and op == "bad-value" and draw(st.integers(0, 2)) == 0:
        toks = draw(st.sampled_from([["CHECKING", "SAVINGS"], ["Y2", "X"], ["A", "B", "C"]]))
        c["type"] = ["OneOf", toks]
        # values that are not tokens - falsy ones included (an empty string is no token either)
        c.update(value=draw(st.sampled_from([["str", ""], ["int", 0], ["bool", False], ["float", 0.0], ["dec", "0"], ["bytes", ""], ["list", []]])), why="falsy-non-member")
        c["required"] = False
    elif name == "OneOf":
        ints = draw(st.integers(0, 5)) == 0
        if ints:
            toks = draw(st.lists(st.integers(0, 999), min_size=1, max_size=5, unique=True))
        else:
            toks = draw(st.lists(TOKEN, min_size=1, max_size=6, unique=True))
        c["type"] = ["OneOf", toks]
        tok = draw(st.sampled_from(toks))
        tag = "int" if ints else "str"
        if op == "value":
            c["value"] = [tag, tok]
        elif op == "text":
            if ints:
                c.update(text=str(tok), expect="any")
            elif draw(st.booleans()):
                c.update(text=tok, expect="accept", ref=["str", tok])
            else:
                bad = draw(st.one_of(st.just(tok.lower()), st.just(tok + "X"), st.just(" " + tok), TOKEN))
                if bad in toks:
                    bad = bad + "_"
                c.update(text=bad, expect="reject")
        elif op in ("bad-value", "bad-native"):
            bad = draw(st.one_of(st.just(str(tok).lower() + "q"), TOKEN.map(lambda x: x + "~"), st.integers(1000, 2000)))
            c.update(value=["int", bad] if isinstance(bad, int) else ["str", bad], why="foreign-token")
    elif name == "Integer":
        n = draw(st.one_of(st.none(), st.integers(1, 12)))
        c["type"] = ["Integer", n]
        hi = 10**n - 1 if n is not None else 10**18
        v = draw(st.one_of(st.integers(0, hi), st.sampled_from([0, hi, hi // 10, 1])))
        if draw(st.integers(0, 5)) == 0 and n is None:
            v = -v
        if op == "value":
            c["value"] = ["int", v]
        elif op == "text":
            r = draw(st.integers(0, 3))
            if r == 0:
                c.update(text=str(v), expect="accept", ref=["int", v])
            elif r == 1:
                c.update(text=draw(st.sampled_from(["", "+"])) + "0" * draw(st.integers(0, 2)) + str(v), expect="any", ref=["int", v])
            elif r == 2 and n is not None:
                over = draw(st.sampled_from([10**n, 10**n + 1, 10 ** (n + 1), -(10**n), -(10 ** (n + 1))]))
                c.update(text=str(over), expect="reject", keysuffix="/over-limit-negative" if over < 0 else "/over-limit")
            else:
                c.update(text=draw(st.sampled_from(["abc", "1.5", "--1", "1e3", "0x10", "1,0", "٣x", "-", "+", "12a"])), expect="reject")
        elif op in ("bad-value", "bad-native"):
            if n is not None and draw(st.booleans()):
                over = draw(st.sampled_from([10**n, 10**n + 7, 10 ** (n + 2), -(10**n), -(10 ** (n + 1)) - 3]))
                c.update(value=["int", over], why="over-limit-negative" if over < 0 else "over-limit")
                if op == "bad-native" and draw(st.integers(0, 2)) == 0:
                    # the same number as another numeric Python type (whole-valued Decimal / float)
                    c.update(value=draw(st.sampled_from([["dec", str(over)], ["dec", "%dE+1" % (over // 10)], ["float", float(over)]])), why="over-limit-as-number")
            elif op == "bad-value" and draw(st.integers(0, 3)) == 0:
                c.update(value=["bool", draw(st.booleans())], why="int-subclass")
            elif op == "bad-value":
                c.update(value=draw(st.sampled_from([["str", "5"], ["dec", "5"], ["bytes", "5"], ["list", [["int", 1]]]])), why="wrong-type")
            else:
                c.update(value=draw(st.sampled_from([["str", "five"], ["bytes", "x"], ["list", [["int", 1]]]])), why="wrong-type")
    elif name == "Decimal":
        k = draw(st.one_of(st.none(), st.integers(0, 8)))
        c["type"] = ["Decimal", k]
        if op == "value":
            if k is None:
                t = draw(dec_text())
            else:
                ip = draw(st.text("0123456789", min_size=1, max_size=12))
                fp = draw(st.text("0123456789", min_size=k, max_size=k))
                t = draw(st.sampled_from(["", "-"])) + ip + ("." + fp if k else "")
            c["value"] = ["dec", str(R.decimal_from_text(t))]
            if "E" in c["value"][1]:
                c["value"] = ["dec", "0"] if k is None else ["dec", "0" + ("." + "0" * k if k else "")]
        elif op == "text":
            r = draw(st.integers(0, 3))
            if r <= 1:
                # with a fixed scale the library quantizes under the default 28-digit context: longer numbers are not asserted
                t = draw(dec_text() if k is None else dec_text(max_int=11, max_frac=8))
                ref = R.decimal_from_text(t)
                c.update(text=t, expect="accept", ref=["dec", format(ref, "f")])
            elif r == 2:
                c.update(text=draw(st.sampled_from(["NaN", "Infinity", "-Infinity", "sNaN", "nan", "inf", "-inf"])), expect="reject", keysuffix="/special-value")
            else:
                c.update(text=draw(st.sampled_from(["abc", "1.2.3", "1,2,3", "", "-", "1.2,3", "$5", "5-", "1 2", "--5", "+-5", "."])), expect="reject")
        elif op in ("bad-value", "bad-native"):
            if k is not None and op == "bad-value" and draw(st.booleans()):
                kk = draw(st.integers(0, 9).filter(lambda x: x != k))
                v = decimal.Decimal((0, (1, 2, 3, 4, 5), -kk))
                c.update(value=["dec", format(v, "f")], why="wrong-quantum")
            elif op == "bad-value":
                c.update(value=draw(st.sampled_from([["str", "1.5"], ["int", 5], ["float", 1.5], ["bytes", "1"]])), why="wrong-type")
            else:
                c.update(value=draw(st.sampled_from([["str", "abc"], ["bytes", "1"], ["list", []]])), why="wrong-type")
    else:  # DateTime / Time
        c["type"] = [name]
        is_time = name == "Time"
        if op == "value":
            c["value"] = draw(aware_time() if is_time else aware_dt())
            if not is_time and draw(st.integers(0, 3)) == 0:
                # aware through a zone object whose offset depends on the date (zoneinfo-like): utcoffset(None) is None
                v = c["value"]
                c["value"] = ["dtz"] + v[1:8] + [draw(st.sampled_from([-300, -480, 60, 570, 0]))]
        elif op == "text":
            from pbt.checks.c09 import read_case

            f = draw(read_case(timekind=is_time))
            f.pop("kind")
            if f.get("tzonly"):
                f.pop("tzonly")
                f.update(off=-300, sign="signed", mins="auto", name="EST")
            c.update(text=R.render_dt(f), expect="accept")
            exp = R.expected_instant_us(f)
            if is_time:
                hh, rem = divmod(exp, 3600 * 10**6)
                mm, rem = divmod(rem, 60 * 10**6)
                ss, us = divmod(rem, 10**6)
                c["ref"] = ["time", hh, mm, ss, us, 0]
            else:
                y, mo, d, h, mi, s, us = R.fields_from_us(exp)
                c["ref"] = ["dt", y, mo, d, h, mi, s, us, 0, None]
            if draw(st.integers(0, 2)) == 0:
                # a single-field corruption of that valid text instead: outside the notation, must be refused
                from pbt.checks.c09 import corruptions

                f2 = dict(f, notation=f["notation"])
                cs = corruptions(f2, c["text"])
                if cs:
                    nm, bad = cs[draw(st.integers(0, len(cs) - 1))]
                    c.pop("ref", None)
                    c.update(text=bad, expect="reject", keysuffix="/" + nm)
        elif op in ("bad-value", "bad-native"):
            opts = [["str", "not a date"], ["int", 20200101], ["naive-time", 1, 2, 3] if is_time else ["naive-dt", 2020, 1, 2, 3, 4, 5], ["date", 2020, 1, 2], ["bytes", "20200101"]]
            if op == "bad-value":
                opts.append(["str", "20200101"] if not is_time else ["str", "120000"])
                opts.append(["time", 1, 2, 3, 0, 0] if not is_time else ["dt", 2020, 1, 2, 3, 4, 5, 0, 0, None])
            c.update(value=draw(st.sampled_from(opts)), why="wrong-type-or-naive")
    c["op"] = op if "op" not in c else c["op"]
    if c["op"] in ("bad-value", "bad-native") and "value" not in c:
        c["op"] = "none"
    return c


def _nontrivial(c):
    spec = c["type"]
    if c["op"] in ("bad-value", "bad-native", "nag", "none", "twins"):
        return True
    if len(spec) > 1 and spec[1] is not None:
        return True
    return c["op"] == "text"


def _labels(c):
    labs = [c["type"][0], "op:" + c["op"]]
    if c.get("list"):
        labs.append("ListElement")
    if c.get("expect"):
        labs.append("text:" + c["expect"])
    spec = c["type"]
    if c["op"] == "value" and spec[0] in ("String", "NagString") and spec[1] is not None and len(c["value"][1]) == spec[1]:
        labs.append("string at max length")
    if c["op"] == "value" and spec[0] == "Integer" and spec[1] is not None and c["value"][1] == 10 ** spec[1] - 1:
        labs.append("integer at 10^n-1")
    if "why" in c:
        labs.append("bad:" + c["why"])
    return labs


def _worker(job):
    H.setup_path()
    n, seed = job
    s = H.Stats()

    def body(c):
        s.case(c, nontrivial=_nontrivial(c), labels=_labels(c))
        for k, d in check_case(c):
            s.fail(k, c, d)

    H.hyp_run(cases(), body, n, seed, stats=s)
    return s


def _boundary_worker(job):
    """Enumerated boundary table: every length 1..40 / digits 1..12 / scale 0..8 at, below and above the limit."""
    H.setup_path()
    s = H.Stats()
    lo, hi = job
    for n in range(lo, hi):
        for required in (False, True):
            for as_list in (False, True):
                base = {"required": required, "list": as_list}
                tbl = []
                if n <= 40:
                    tbl.append(dict(base, type=["String", n], op="value", value=["str", "x" * n]))
                    tbl.append(dict(base, type=["String", n], op="bad-value", value=["str", "x" * (n + 1)], why="over-length"))
                    tbl.append(dict(base, type=["String", n], op="bad-native", value=["str", "x" * (n + 1)], why="over-length"))
                    for pad in (" ", "\u00a0", "\u0301"):
                        tbl.append(dict(base, type=["String", n], op="bad-value", value=["str", "e" * n + pad], why="over-length"))
                        tbl.append(dict(base, type=["String", n], op="bad-native", value=["str", "e" * n + pad], why="over-length"))
                    # a value at the limit is kept exactly as given (code points, not normalised)
                    if n >= 2:
                        tbl.append(dict(base, type=["String", n], op="value", value=["str", "e\u0301" * (n // 2)]))
                        tbl.append(dict(base, type=["String", n], op="value", value=["str", "\u212b" * n]))
                    tbl.append(dict(base, type=["String", n], op="text", text="&amp;" * n, expect="accept", ref=["str", "&" * n]))
                    tbl.append(dict(base, type=["String", n], op="text", text="y" * (n + 1), expect="reject"))
                    tbl.append(dict(base, type=["NagString", n], op="nag", value=["str", "z" * (n + 1)]))
                    tbl.append(dict(base, type=["NagString", n], op="value", value=["str", "z" * n]))
                if n <= 12:
                    tbl.append(dict(base, type=["Integer", n], op="value", value=["int", 10**n - 1]))
                    tbl.append(dict(base, type=["Integer", n], op="text", text=str(10**n - 1), expect="accept", ref=["int", 10**n - 1]))
                    tbl.append(dict(base, type=["Integer", n], op="text", text=str(10**n), expect="reject", keysuffix="/over-limit"))
                    tbl.append(dict(base, type=["Integer", n], op="bad-value", value=["int", 10**n], why="over-limit"))
                    tbl.append(dict(base, type=["Integer", n], op="bad-native", value=["int", 10**n], why="over-limit"))
                    tbl.append(dict(base, type=["Integer", n], op="bad-native", value=["dec", str(10**n)], why="over-limit-as-number"))
                    tbl.append(dict(base, type=["Integer", n], op="bad-native", value=["float", float(10**n)], why="over-limit-as-number"))
                    tbl.append(dict(base, type=["Integer", n], op="bad-value", value=["int", -(10**n)], why="over-limit-negative"))
                    tbl.append(dict(base, type=["Integer", n], op="bad-value", value=["bool", bool(n % 2)], why="int-subclass"))
                    tbl.append(dict(base, type=["Integer", n], op="text", text=str(-(10**n)), expect="reject", keysuffix="/over-limit-negative"))
                if n <= 9:
                    k = n - 1
                    q = "1." + "0" * (k - 1) + "5" if k else "15"
                    tbl.append(dict(base, type=["Decimal", k], op="value", value=["dec", q]))
                    tbl.append(dict(base, type=["Decimal", k], op="text", text="12.3456789012", expect="accept", ref=["dec", "12.3456789012"]))
                    tbl.append(dict(base, type=["Decimal", k], op="text", text="7", expect="accept", ref=["dec", "7"]))
                    tbl.append(dict(base, type=["Decimal", k], op="bad-value", value=["dec", "1." + "0" * (k + 1)], why="wrong-quantum"))
                for c in tbl:
                    s.case(c, nontrivial=True, labels=["boundary-table"] + _labels(c))
                    for key, d in check_case(c):
                        s.fail(key, c, d)
    return s


def run(ctx):
    n = ctx.scale(6000, 60000)
    ctx.pmap(_worker, [(n, ctx.sub_seed(sh)) for sh in range(16)])
    ctx.pmap(_boundary_worker, [(i, i + 3) for i in range(1, 41, 3)])
