"""C19 - ofxget requests exactly the configured or discovered accounts and given dates."""
from __future__ import annotations

import configparser
import shutil
import tempfile
import warnings
from pathlib import Path

from hypothesis import strategies as st

from pbt.core import harness as H
from pbt.core import fakenet as F
from pbt.core import ofxgetrun as G
from pbt.core import reqmodel as Q
from pbt.core import reftypes as R

PID = "C19"
LEVEL = "exploration"
RULE = (
    "per run (fresh configuration directory): multisets of account numbers for checking / savings / moneymrkt / creditline / "
    "creditcard / investment from the command line and/or the user file, bank id, broker id, --start / --end / --asof in all "
    "date-time notations with offsets, --no-transactions / --no-balances / --no-positions / --open-orders, version and format "
    "flags; commands stmt and stmtend as dry runs: the printed request is read by the independent scanner and compared with a "
    "reference model (one wrapper per account with its type, ids, dates as instants, flags; nothing else).  --all: real runs "
    "against a fake server whose ACCTINFORS is generated (any mix of bank / credit-card / investment / bill-pay accounts with "
    "AVAIL / PEND / ACTIVE status, several ACCTINFO wrappers, profile hop served or skipped): the statement request received by "
    "the server must ask for exactly the ACTIVE accounts of the supported types and never an inactive one.  non-trivial = >=2 "
    "account types with >=3 accounts, or --all with >=1 inactive account; distinct by case hash"
)
ASSUMPTIONS = [
    "accounts are compared as multisets per request kind (order between account types is not asserted)",
    "--all combined with locally configured account lists: only 'no inactive account is requested' is asserted",
    "bank accounts of type CD are not requestable through ofxget's options and are not expected",
    "a bank / broker id given on the command line outranks the discovered one (CLI first)",
]

BANKTYPES = ["checking", "savings", "moneymrkt", "creditline"]
FLAG = {"checking": "-C", "savings": "-S", "moneymrkt": "-M", "creditline": "-L", "creditcard": "-c", "investment": "-i"}
_AL = "ABCDEFGHIJKLMNOPQRSTUVWXYZabcdefghijklmnopqrstuvwxyz0123456789"
_ACCT_PLAIN = st.builds(lambda a, b: a + b, st.sampled_from(_AL), st.text(_AL + "-", min_size=0, max_size=9))
# card- and IBAN-style grouping: an account id may contain single blanks
ACCT = st.one_of(_ACCT_PLAIN, _ACCT_PLAIN, _ACCT_PLAIN, st.sampled_from(["3782 822463 10005", "DE89 3704 0044 0532", "12 34", "A B"]))
PASSWORD = "pw-for-c19"


def date_st():
    from pbt.checks.c09 import read_case

    return st.one_of(st.none(), read_case(timekind=False).filter(lambda f: not f.get("tzonly")))


@st.composite
def cases(draw):
    cmd = draw(st.sampled_from(["stmt", "stmt", "stmtend"]))
    types = BANKTYPES + ["creditcard"] + (["investment"] if cmd == "stmt" else [])
    cli = {t: draw(st.lists(ACCT, min_size=1, max_size=4)) for t in draw(st.lists(st.sampled_from(types), unique=True, max_size=4))}
    user = {t: draw(st.lists(ACCT, min_size=1, max_size=3)) for t in draw(st.lists(st.sampled_from(types), unique=True, max_size=2))}
    c = {
        "cmd": cmd, "cli": cli, "user": user, "bankid": draw(st.text("0123456789", min_size=1, max_size=9)), "brokerid": draw(ACCT),
        "bankid_src": draw(st.sampled_from(["cli", "user"])), "version": draw(st.sampled_from([102, 103, 151, 160, 200, 203, 211, 220])),
        "pretty": draw(st.booleans()), "unclosed": draw(st.booleans()),
        "start": draw(date_st()), "end": draw(date_st()), "asof": draw(date_st()) if cmd == "stmt" else None,
        "no_tran": draw(st.booleans()) if cmd == "stmt" else False, "no_bal": draw(st.booleans()) if cmd == "stmt" else False,
        "no_pos": draw(st.booleans()) if cmd == "stmt" else False, "oo": draw(st.booleans()) if cmd == "stmt" else False,
        "all": draw(st.integers(0, 3)) == 0,
    }
    if c["version"] >= 200:
        c["unclosed"] = False
    if c["start"] is not None and draw(st.integers(0, 5)) == 0:
        # one day asked for: start and end are the same instant
        c["end"] = dict(c["start"])
    if cli and draw(st.integers(0, 7)) == 0:
        # a customer with a long list of accounts (more than fit any batch size one might think of)
        t = sorted(cli)[0]
        cli[t] = ["%s%03d" % (t[:2].upper(), i) for i in range(draw(st.sampled_from([26, 31, 40, 51, 77])))]
        c["many"] = True
    if c["all"]:
        n = draw(st.integers(0, 7))
        accts = []
        # one bank id and one broker id per response, spelled as the server spells them (case matters)
        disc_bankid = draw(st.sampled_from(["987654321", "NWBKGB2L", "Abc-123", "021000021"]))
        disc_brokerid = draw(st.sampled_from(["disc.broker.com", "Brokerage.Example.COM", "4705", "dI.Sc"]))
        for i in range(n):
            kind = draw(st.sampled_from(["bank", "bank", "cc", "inv", "bp"]))
            a = {"kind": kind, "acctid": draw(ACCT), "status": draw(st.sampled_from(["ACTIVE", "ACTIVE", "AVAIL", "PEND"])), "group": draw(st.integers(0, 3)) * 10 + {"bank": 0, "cc": 1, "inv": 2, "bp": 3}[kind], "caps": draw(st.integers(0, 7))}
            if kind in ("bank", "bp"):
                a["bankid"] = disc_bankid
                a["accttype"] = draw(st.sampled_from(["CHECKING", "SAVINGS", "MONEYMRKT", "CREDITLINE", "CD"]))
            if kind == "inv":
                a["brokerid"] = disc_brokerid
            accts.append(a)
        # at most one *ACCTINFO of a service per ACCTINFO wrapper: group ids are made unique per (group, kind) above;
        # duplicates within the same (group) key get their own wrapper
        seen = {}
        for a in accts:
            k = a["group"]
            seen[k] = seen.get(k, 0) + 1
            if seen[k] > 1:
                a["group"] = k + 100 * seen[k]
        c["acctinfo"] = accts
        c["skipprofile"] = draw(st.booleans())
        # what the profile says about closing statements is the server's business: the accounts asked for stay the same
        c["closingavail"] = draw(st.booleans())
        if draw(st.booleans()):
            c["cli"] = {}
            c["user"] = {}
    return c


def argv_of(c):
    argv = [c["cmd"], "mybank", "--url", "https://ofx.example.com/ofx", "--version", str(c["version"]), "--user", "joe"]
    if c["pretty"]:
        argv.append("--pretty")
    if c["unclosed"]:
        argv.append("--unclosedelements")
    for t, lst in sorted(c["cli"].items()):
        for a in lst:
            argv += [FLAG[t], a]
    if c["bankid_src"] == "cli":
        argv += ["--bankid", c["bankid"]]
        if c["cmd"] == "stmt":
            argv += ["--brokerid", c["brokerid"]]
    for opt, key in (("--start", "start"), ("--end", "end"), ("--asof", "asof")):
        if c.get(key):
            argv += [opt, R.render_dt(c[key])]
    if c["no_tran"]:
        argv.append("--no-transactions")
    if c["no_bal"]:
        argv.append("--no-balances")
    if c["no_pos"]:
        argv.append("--no-positions")
    if c["oo"]:
        argv.append("--open-orders")
    if c["all"]:
        argv += ["--all", "--password", PASSWORD]
        if c.get("skipprofile"):
            argv.append("--skipprofile")
    else:
        argv.append("--dryrun")
    return argv


def write_user_file(root, c):
    opts = {}
    for t, lst in c["user"].items():
        opts[t] = ", ".join(lst)
    if c["bankid_src"] == "user":
        opts["bankid"] = c["bankid"]
        opts["brokerid"] = c["brokerid"]
    if not opts:
        return
    p = G.user_cfg_path(root)
    p.parent.mkdir(parents=True, exist_ok=True)
    cp = configparser.RawConfigParser()
    cp.add_section("mybank")
    for k, v in opts.items():
        cp.set("mybank", k, v)
    with open(p, "w") as f:
        cp.write(f)


def inst(f):
    return None if not f else R.expected_instant_us(f)


def expected_local(c):
    """Requests expected from locally configured accounts."""
    eff = {t: (c["cli"].get(t) or c["user"].get(t) or []) for t in BANKTYPES + ["creditcard", "investment"]}
    e = {k: [] for k in ("stmt", "stmtend", "ccstmt", "ccstmtend", "invstmt")}
    s, en, asof = inst(c["start"]), inst(c["end"]), inst(c["asof"])
    for t in BANKTYPES:
        for a in eff[t]:
            if c["cmd"] == "stmt":
                e["stmt"].append({"bankid": c["bankid"], "acctid": a, "accttype": t.upper(), "inctran": {"dtstart": s, "dtend": en, "include": not c["no_tran"]}})
            else:
                e["stmtend"].append({"bankid": c["bankid"], "acctid": a, "accttype": t.upper(), "dtstart": s, "dtend": en})
    for a in eff["creditcard"]:
        if c["cmd"] == "stmt":
            e["ccstmt"].append({"acctid": a, "inctran": {"dtstart": s, "dtend": en, "include": not c["no_tran"]}})
        else:
            e["ccstmtend"].append({"acctid": a, "dtstart": s, "dtend": en})
    if c["cmd"] == "stmt":
        for a in eff["investment"]:
            e["invstmt"].append({"brokerid": c["brokerid"], "acctid": a, "inctran": ({"dtstart": s, "dtend": en, "include": True} if not c["no_tran"] else "absent-or-N"),
                                 "incoo": c["oo"], "incbal": not c["no_bal"], "incpos": {"dtasof": asof, "include": not c["no_pos"]}})
    return e


def norm_inv(lst):
    out = []
    for r in lst:
        r = dict(r)
        it = r.get("inctran")
        if it is None or (isinstance(it, dict) and it["include"] is False) or it == "absent-or-N":
            r["inctran"] = "absent-or-N"
        out.append(r)
    return out


def multiset(lst):
    return sorted(H.canon(x) for x in lst)


def compare(exp, story, out, ctx):
    for kind in ("stmt", "stmtend", "ccstmt", "ccstmtend", "invstmt"):
        e, g = exp[kind], story["requests"][kind]
        if kind == "invstmt":
            e, g = norm_inv(e), norm_inv(g)
        if multiset(e) != multiset(g):
            ea = sorted((r.get("accttype", ""), r["acctid"]) for r in e)
            ga = sorted((r.get("accttype", ""), r["acctid"]) for r in g)
            if ea != ga:
                out.append((f"accounts-differ/{kind}", f"{ctx}: asked {ea}, request has {ga}"))
            else:
                diff = sorted({k for a, b in zip(sorted(e, key=H.canon), sorted(g, key=H.canon)) for k in a if a.get(k) != b.get(k)})
                out.append((f"wrapper-content-differs/{kind}/{'+'.join(diff)}", f"{ctx}: expected {e[:2]} got {g[:2]}"))
            return
    for kind in ("acctinfo", "prof", "tax1099"):
        if story["requests"][kind]:
            out.append((f"unexpected-request/{kind}", ctx))
    if story["other_wrappers"]:
        out.append(("unexpected-wrappers", f"{ctx}: {story['other_wrappers']}"))


def check_case(c):
    H.setup_path()
    warnings.simplefilter("ignore")
    root = Path(tempfile.mkdtemp(prefix="verif_c19_"))
    out = []
    try:
        write_user_file(root, c)
        argv = argv_of(c)
        if not c["all"]:
            with F.FakeNet(lambda rec: (200, [], b"")) as net:
                r = G.run(root, argv)
            if net.log or net.socket_attempts:
                out.append(("dry-run-sent-a-request", str(argv)))
            if r.raised is not None or r.exited:
                return out + [("valid-dry-run-refused", f"{argv}: {r.raised!r}")]
            try:
                story = Q.story_from_bytes(r.stdout.encode("utf_8"))
            except Exception as e:
                return out + [("printed-request-not-readable", f"{argv}: {e!r}: {r.stdout[:200]!r}")]
            compare(expected_local(c), story, out, str(argv))
            if story["version"] != c["version"]:
                out.append(("version-differs", f"{story['version']} != {c['version']}"))
            return out
        # --all: real run against the fake server
        accts = c["acctinfo"]
        served = {"acctinfo": 0}

        def responder(rec):
            data = rec["data"] or b""
            if b"<PROFRQ>" in data:
                return 200, [], F.profile_response({"BANKMSGSET": rec["url"], "CREDITCARDMSGSET": rec["url"], "INVSTMTMSGSET": rec["url"]}, F.dt_tag(2020), closing=c.get("closingavail", True))
            if b"<ACCTINFORQ>" in data:
                served["acctinfo"] += 1
                return 200, [], F.acctinfo_response(accts)
            return 200, [], b"OFXHEADER:100\r\n\r\n<OFX>ok</OFX>"

        with F.FakeNet(responder) as net:
            r = G.run(root, argv)
        stmt_hops = [rec for rec in net.log if b"<ACCTINFORQ>" not in (rec["data"] or b"") and b"<PROFRQ>" not in (rec["data"] or b"")]
        active = [a for a in accts if a["status"] == "ACTIVE"]
        inactive_ids = {a["acctid"] for a in accts if a["status"] != "ACTIVE"} - {a["acctid"] for a in active}
        local = any(c["cli"].values()) or any(c["user"].values())
        requested_ids = set()
        story = None
        if stmt_hops:
            try:
                story = Q.story_from_bytes(stmt_hops[-1]["data"])
            except Exception as e:
                return [("statement-request-not-readable", repr(e))]
            for kind in ("stmt", "stmtend", "ccstmt", "ccstmtend", "invstmt"):
                requested_ids |= {x["acctid"] for x in story["requests"][kind]}
        # never an inactive account (unless the user configured that very id locally)
        local_ids = {a for lst in list(c["cli"].values()) + list(c["user"].values()) for a in lst}
        bad = (requested_ids & inactive_ids) - local_ids
        if bad:
            out.append(("inactive-account-requested", f"{argv}: {sorted(bad)}"))
        if local:
            return out
        # exactly the ACTIVE accounts of the supported types
        exp = {k: [] for k in ("stmt", "stmtend", "ccstmt", "ccstmtend", "invstmt")}
        s, en, asof = inst(c["start"]), inst(c["end"]), inst(c["asof"])
        for a in active:
            if a["kind"] == "bank" and a["accttype"].lower() in BANKTYPES:
                if c["cmd"] == "stmt":
                    exp["stmt"].append({"bankid": c["bankid"] if c["bankid_src"] == "cli" else a["bankid"], "acctid": a["acctid"], "accttype": a["accttype"], "inctran": {"dtstart": s, "dtend": en, "include": not c["no_tran"]}})
                else:
                    exp["stmtend"].append({"bankid": c["bankid"] if c["bankid_src"] == "cli" else a["bankid"], "acctid": a["acctid"], "accttype": a["accttype"], "dtstart": s, "dtend": en})
            elif a["kind"] == "cc":
                if c["cmd"] == "stmt":
                    exp["ccstmt"].append({"acctid": a["acctid"], "inctran": {"dtstart": s, "dtend": en, "include": not c["no_tran"]}})
                else:
                    exp["ccstmtend"].append({"acctid": a["acctid"], "dtstart": s, "dtend": en})
            elif a["kind"] == "inv" and c["cmd"] == "stmt":
                exp["invstmt"].append({"brokerid": c["brokerid"] if c["bankid_src"] == "cli" else a["brokerid"], "acctid": a["acctid"], "inctran": ({"dtstart": s, "dtend": en, "include": True} if not c["no_tran"] else "absent-or-N"),
                                       "incoo": c["oo"], "incbal": not c["no_bal"], "incpos": {"dtasof": asof, "include": not c["no_pos"]}})
        n_exp = sum(len(v) for v in exp.values())
        if r.raised is not None:
            kinds_without_active = [k for k in ("bank", "inv") if any(a["kind"] == k for a in accts) and not any(a["kind"] == k and a["status"] == "ACTIVE" for a in accts)]
            key = "all-run-raises"
            if kinds_without_active and n_exp:
                key = "all-aborts-when-a-listed-kind-has-no-active-account"
            elif n_exp == 0:
                return out  # nothing to request: an error is as good as an empty request
            out.append((key, f"{argv}: {r.raised!r}; ACTIVE accounts {[(a['kind'], a['acctid']) for a in active]}"))
            return out
        if story is None:
            if n_exp:
                out.append(("all-sent-no-statement-request", f"{argv}"))
            return out
        compare(exp, story, out, str(argv))
        return out
    finally:
        shutil.rmtree(root, ignore_errors=True)


def _worker(job):
    H.setup_path()
    n, seed = job
    s = H.Stats()

    def body(c):
        ntypes = len({t for t in list(c["cli"]) + list(c["user"])})
        nacct = sum(len(v) for v in c["cli"].values()) + sum(len(v) for v in c["user"].values())
        inactive = c["all"] and any(a["status"] != "ACTIVE" for a in c.get("acctinfo", []))
        labs = ["cmd:" + c["cmd"], "all" if c["all"] else "dry-run"]
        if inactive:
            labs.append("--all with inactive accounts")
        if c["all"] and not c["cli"] and not c["user"]:
            labs.append("--all without local accounts")
        for k in ("start", "end", "asof"):
            if c.get(k):
                labs.append("date notation:" + c[k]["notation"])
        s.case(c, nontrivial=(ntypes >= 2 and nacct >= 3) or inactive, labels=labs)
        for k, d in check_case(c):
            s.fail(k, c, d)

    H.hyp_run(cases(), body, n, seed, stats=s)
    return s


def run(ctx):
    n = ctx.scale(120, 1200)
    ctx.pmap(_worker, [(n, ctx.sub_seed(i)) for i in range(16)])
