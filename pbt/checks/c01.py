"""C01 - serialize-then-parse returns the same model, for every class and wire form."""
from __future__ import annotations

import io
import warnings

from hypothesis import strategies as st

from pbt.core import harness as H
from pbt.core import modelgen as M

PID = "C01"
LEVEL = "exploration"
RULE = (
    "for each of the ~390 concrete aggregate classes: Hypothesis-generated valid instance descriptions (required children "
    "always, optional children with depth-decaying probability, exclusivity groups honoured, 0-3 list members of permitted "
    "types interleaved, hand-tabled custom constraints; strings over printable Unicode incl. & < > quotes non-ASCII, decimals "
    "with exponent <= 0, aware date-times at millisecond resolution with offsets -12:00..+14:00 and zone names) x 6 wire forms "
    "(v2 XML / v1 closed / v1 unclosed, each plain and pretty-printed) with drawn header versions; the library's own "
    "serializer writes, its parser+converter reads; oracle = structural comparator against the original instance.  "
    "non-trivial = instance with >=1 optional child present and (>=1 list member or nesting depth >=3); distinct by description hash"
)
ASSUMPTIONS = [
    "not asserted: decimals with positive exponent / non-finite (C11), strings with leading/trailing whitespace or control characters, naive datetimes",
    "date-times compared as instants to the millisecond, times modulo 24h, decimals in value and exponent",
]

FORMS = [
    ("xml", 2, True, False),
    ("xml-pretty", 2, True, True),
    ("sgml-closed", 1, True, False),
    ("sgml-closed-pretty", 1, True, True),
    ("sgml-unclosed", 1, False, False),
    ("sgml-unclosed-pretty", 1, False, True),
]
V1 = [102, 103, 151, 160]
V2 = [200, 201, 202, 203, 210, 211, 220]


def empty_followed_by_sibling(elem):
    """An empty aggregate (no children, no text) that has a following sibling somewhere in the tree."""
    kids = list(elem)
    for i, c in enumerate(kids):
        if len(c) == 0 and not (c.text or "").strip() and i < len(kids) - 1:
            return True
        if empty_followed_by_sibling(c):
            return True
    return False


def roundtrip(inst, form, version):
    from ofxtools.Client import OFXClient
    from ofxtools.Parser import OFXTree

    name, major, close, pretty = form
    client = OFXClient("https://example.invalid/ofx", version=version, prettyprint=pretty, close_elements=close)
    data = client.serialize(inst)
    tree = OFXTree()
    tree.parse(io.BytesIO(data))
    return data, tree.header, tree.convert()


def check_case(case):
    H.setup_path()
    desc = case["inst"]
    out = []
    with warnings.catch_warnings():
        warnings.simplefilter("ignore")
        try:
            inst = M.build(desc)
        except Exception as e:
            # a valid description the library refuses to construct is C04/C13 business; recorded, not a C01 verdict
            return [] if not case.get("strict_build") else [("valid-instance-refused", f"{desc['cls']}: {e!r}")]
        # no-wire round trip first, to localise failures
        try:
            et = inst.to_etree()
            # to_etree() holds decoded text while from_etree() expects text as the parser delivers it (still escaped):
            # apply the wire escaping in between, without any wire
            import copy as _copy
            from pbt.core import reftypes as _R

            et_wire = _copy.deepcopy(et)
            for e in et_wire.iter():
                if len(e) == 0 and e.text:
                    e.text = _R.escape_min(e.text)
            back = type(inst).from_etree(et_wire)
            df = M.model_diff(inst, back)
            if df:
                out.append(("etree-roundtrip-differs", f"{desc['cls']}: {df[:3]}"))
        except Exception as e:
            return [("etree-roundtrip-raises", f"{desc['cls']}: {e!r}")]
        efs = empty_followed_by_sibling(et)
        forms = [f for f in FORMS if case.get("forms") is None or f[0] in case["forms"]]
        for form in forms:
            version = case["v1"] if form[1] == 1 else case["v2"]
            unclosed = not form[2]
            suffix = form[0]
            if unclosed and efs:
                suffix = "sgml-unclosed/empty-aggregate-followed-by-sibling"
                if case.get("skip_known", True):
                    continue
            try:
                data, header, got = roundtrip(inst, form, version)
            except Exception as e:
                out.append((f"roundtrip-raises/{suffix}", f"{desc['cls']} v{version}: {e!r}"))
                continue
            if header.version != version:
                out.append((f"header-version/{form[0]}", f"{header.version} != {version}"))
            df = M.model_diff(inst, got)
            if df:
                out.append((f"roundtrip-differs/{suffix}", f"{desc['cls']} v{version}: {df[:3]} wire={data[-300:]!r}"))
        if not out and case.get("twin", True):
            # an equal-comparing but differently written instance (decimals with another exponent, date-times in
            # another zone), serialized right after the original, must still come back as itself
            tdesc, n = M.twin_desc(desc)
            if n:
                try:
                    tinst = M.build(tdesc)
                    data, header, got = roundtrip(tinst, FORMS[0], case["v2"])
                    df = M.model_diff(tinst, got)
                    if df:
                        out.append(("equal-valued-instance-written-like-its-predecessor", f"{desc['cls']}: {df[:3]}"))
                except Exception as e:
                    out.append(("equal-valued-instance-roundtrip-raises", f"{desc['cls']}: {e!r}"))
    return out


def case_st(cls):
    return st.builds(lambda d, a, b: {"inst": d, "v1": a, "v2": b}, M.instance_st(cls), st.sampled_from(V1), st.sampled_from(V2))


def _worker(job):
    H.setup_path()
    names, n, seed = job
    s = H.Stats()
    U = M.universe()
    for name in names:
        cls = U[name]

        def body(case):
            desc = case["inst"]
            stt = M.desc_stats(desc)
            labs = []
            if stt["members"]:
                labs.append("has list members")
            if len(stt["member_types"]) >= 2:
                labs.append("mixed member types")
            if stt["empty_sub"]:
                labs.append("empty sub-aggregate present")
            if stt["markup"]:
                labs.append("string with markup characters")
            if stt["nonascii"]:
                labs.append("non-ASCII string")
            if stt["neg_frac_off"]:
                labs.append("offset in (-1h,0)")
            nontrivial = stt["optional"] >= 1 and (stt["members"] >= 1 or stt["depth"] >= 3)
            s.case(case, nontrivial=nontrivial, labels=labs)
            s.label("wire round trips", 6)
            try:
                with warnings.catch_warnings():
                    warnings.simplefilter("ignore")
                    inst = M.build(desc)
                if empty_followed_by_sibling(inst.to_etree()):
                    s.exclude("unclosed forms skipped: empty aggregate followed by a sibling (known finding)", 2)
            except Exception as e:
                s.label("valid description refused by constructor (reported under C04/C13)")
                s.exc(e)
            for k, d in check_case(case):
                s.fail(k, case, d)

        H.hyp_run(case_st(cls), body, n, H.derive_seed(seed, name), stats=s)
        s.label("classes covered")
    return s


def run(ctx):
    names = sorted(M.universe())
    n = ctx.scale(25, 250)
    # big classes first so the pool is balanced
    shards = [names[i::48] for i in range(48)]
    ctx.pmap(_worker, [(sh, n, ctx.sub_seed("cls")) for sh in shards])
    ctx.note("classes", len(names))
