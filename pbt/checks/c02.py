"""C02 - all wire renderings of one OFX body parse to the same, faithful element tree."""
from __future__ import annotations

import itertools

from hypothesis import strategies as st

from pbt.core import harness as H
from pbt.core import refofx as X

PID = "C02"
LEVEL = "exploration"
RULE = (
    "abstract trees (tags over [A-Z0-9._]{1,12}, trimmed non-empty leaf data without '<', empty aggregates) x rendering "
    "choices per node (end tag present/omitted, plain/CDATA, whitespace around CDATA, gap after every tag from "
    "'', ' ', tab, LF, CRLF, CR, LF+indent); ground truth is the generated tree itself.  Sub-space enumerated "
    "exhaustively: all trees with <= N nodes (N=4 quick, 5 thorough) x 2 tag schemes x 2 data strings x all "
    "end-tag/CDATA choices x gaps from {'', LF, ' '}.  Half of the sampled renderings are also delivered as a complete file "
    "(version-1 and version-2 header) through OFXTree.parse; a quarter of them, and half the enumeration shards, run after a "
    "parse that failed with elements still open; an atheris campaign (seeded and empty corpus) asserts the scanner's tree for "
    "every mutated body the strict scanner finds well-formed.  non-trivial = rendering omits >=1 end tag, or uses CDATA, "
    "or mixes >=2 gap kinds; distinct by hash of the rendered text"
)
ASSUMPTIONS = [
    "not asserted: lower-case tags, tags with spaces or '/', attributes, comments, data containing '<'",
    "CDATA spelling only for data free of '&' and ']]>' (where both spellings denote the same data)",
]

GAPS = ["", " ", "\t", "\n", "\r\n", "\r", "\n  ", "\r\n\t"]
TAG = st.text("ABCDEFGHIJKLMNOPQRSTUVWXYZ0123456789._", min_size=1, max_size=12)
TAG_POOL = st.one_of(st.sampled_from(["OFX", "A", "B", "STMTTRN", "INTU.BID", "A.B.C", "X_1", "1099", "MEMO", "NAME"]), TAG)
DATA_CH = st.one_of(
    st.characters(categories=("L", "M", "N", "P", "S", "Zs"), exclude_characters="<"),
    st.sampled_from([" ", "\n", "\t", ">", "]", "&amp;", "&lt;", "&gt;", ",", "]]", "&#38;", "/", "-"]),
)


def _trim_ok(s):
    return bool(s) and not s[0].isspace() and not s[-1].isspace() and "<" not in s


DATA = st.one_of(
    st.sampled_from(["x", "12.50", "20200101120000.000[-5:EST]", "a b", "Tom &amp; Jerry", "1 > 0", "a]]b", "line1\nline2", "é漢", "Ame\u0301lie", "\u212b\u2126\uf900", "Caf\ufeffe", "ready?>go", "a <?b c?> d".replace("<", "&lt;"), "x" * 256, "long " * 80 + "end"]),
    st.lists(DATA_CH, min_size=1, max_size=12).map("".join).map(lambda s: s.strip()).filter(_trim_ok),
)


# one draw selects the whole lexical style of a leaf (Hypothesis is slow per draw)
_W0 = ["", "", "", " ", "\n", "\t"]
_W1 = ["", "", "", " ", "\n", "\r\n"]
_CW0 = ["", "", " ", "\n", "\n  "]
_CW1 = ["", "", " ", "\n"]
PLAIN_STYLES = [(e, False, w0, w1, ga) for e in (True, False) for w0 in _W0 for w1 in _W1 for ga in GAPS]
CDATA_STYLES = [(e, True, w0, w1, ga) for e in (True, False) for w0 in _CW0 for w1 in _CW1 for ga in GAPS]


def _mk_leaf(tag, d, want_cdata, k):
    cd_ok = "&" not in d and "]]>" not in d
    tbl = CDATA_STYLES if (want_cdata and cd_ok) else PLAIN_STYLES
    e, cd, w0, w1, ga = tbl[k % len(tbl)]
    node = {"t": tag, "d": d, "end": e, "ga": ga}
    if cd:
        node["cdata"] = True
    if w0:
        node["w0"] = w0
    if w1:
        node["w1"] = w1
    return node


def leaf_st():
    return st.builds(_mk_leaf, TAG_POOL, DATA, st.integers(0, 3).map(lambda x: x == 0), st.integers(0, 10**6))


def tree_st(max_leaves=25):
    def agg(children):
        return st.builds(
            lambda t, c, g, ga: {"t": t, "c": c, "g": g, "ga": ga},
            TAG_POOL,
            st.lists(children, min_size=0, max_size=6),
            st.sampled_from(GAPS),
            st.sampled_from(GAPS),
        )

    node = st.recursive(leaf_st(), agg, max_leaves=max_leaves)
    return agg(node).map(disambiguate)


def disambiguate(node):
    """An unclosed data element that is the last child of a same-named aggregate is ambiguous in the
    syntax itself (the parent's end tag reads as its own): such leaves always get their end tag."""
    if "c" in node:
        for c in node["c"]:
            disambiguate(c)
        if node["c"]:
            last = node["c"][-1]
            if "d" in last and last["t"] == node["t"]:
                last["end"] = True
    return node


def count_nodes(n):
    return 1 + sum(count_nodes(c) for c in n.get("c", []))


def depth(n):
    return 1 + max([depth(c) for c in n.get("c", [])], default=0)


def classify_rendering(node, acc=None):
    acc = acc if acc is not None else {"unclosed": 0, "cdata": 0, "gaps": set(), "cdata_ws": 0}
    if "c" in node:
        acc["gaps"].add(node.get("g", ""))
        acc["gaps"].add(node.get("ga", ""))
        for c in node["c"]:
            classify_rendering(c, acc)
    else:
        acc["gaps"].add(node.get("ga", ""))
        if not node.get("end", True):
            acc["unclosed"] += 1
        if node.get("cdata"):
            acc["cdata"] += 1
            if node.get("w0") or node.get("w1"):
                acc["cdata_ws"] += 1
    return acc


def parse_with_library(text):
    from ofxtools.Parser import TreeBuilder

    b = TreeBuilder()
    b.feed(text)
    return b.close()


HDR_V1 = "OFXHEADER:100\r\nDATA:OFXSGML\r\nVERSION:102\r\nSECURITY:NONE\r\nENCODING:USASCII\r\nCHARSET:NONE\r\nCOMPRESSION:NONE\r\nOLDFILEUID:NONE\r\nNEWFILEUID:NONE\r\n\r\n"
HDR_V2 = '<?xml version="1.0" encoding="UTF-8" standalone="no"?>\r\n<?OFX OFXHEADER="200" VERSION="203" SECURITY="NONE" OLDFILEUID="NONE" NEWFILEUID="NONE"?>\r\n'
BAD_BODIES = ["<A><B>x</A>", "<A><B><C>1</B></A>", "<A>x</A>tail", "<A><B>", "</A>"]


def parse_file_with_library(text, hdr):
    """The same body as a complete file (header + body) through the public entry point."""
    import io

    from ofxtools.Parser import OFXTree

    t = OFXTree()
    return t.parse(io.BytesIO((hdr + text).encode("utf_8")))


def _fail_a_parse(k):
    """History: a parse that fails while elements are open.  Every parse starts from a clean slate."""
    from ofxtools.Parser import TreeBuilder

    try:
        b = TreeBuilder()
        b.feed(BAD_BODIES[k % len(BAD_BODIES)])
        b.close()
    except Exception:
        pass


def _failure_key(node, acc):
    if acc["cdata"]:
        if acc["cdata_ws"]:
            return "cdata-with-surrounding-whitespace"
        ncd = acc["cdata"]

        def has_nl(n):
            if "c" in n:
                return any(has_nl(c) for c in n["c"])
            return bool(n.get("cdata")) and ("\n" in n["d"] or "\r" in n["d"])

        if has_nl(node):
            return "cdata-with-line-break"
        if ncd >= 2:
            return "two-cdata-sections"
        return "cdata"
    return "plain"


def check_case(case):
    H.setup_path()
    if "large" in case:
        case = dict(case, tree=large_tree(*case["large"]))
    node = case["tree"] if "tree" in case else None
    if node is not None:
        text = X.render(node)
        want = X.plain(node)
    else:
        text, want = case["text"], case["want"]
    # harness self-test: own scanner must read own rendering back (else the generator is broken)
    mine = X.classify(text)
    if mine[0] != X.WELL_FORMED or mine[1] != want:
        raise H.HarnessError(f"renderer/scanner disagree on {text!r}: {mine}")
    acc = classify_rendering(node) if node is not None else {"cdata": text.count("<![CDATA["), "cdata_ws": 0, "unclosed": 0, "gaps": set()}
    suffix = _failure_key(node, acc) if node is not None else ("cdata" if acc["cdata"] else "plain")
    if case.get("after_bad") is not None:
        _fail_a_parse(case["after_bad"])
        suffix += "/after-a-failed-parse"
    try:
        root = parse_with_library(text)
    except Exception as e:
        return [(f"rejected/{suffix}", f"{text!r}: {e!r}")]
    if root is None:
        return [(f"no-tree/{suffix}", f"{text!r}")]
    got = X.from_etree(root)
    out = []
    if got != want:
        out.append((f"wrong-tree/{suffix}", f"{text!r} parsed as {got!r}, expected {want!r}"))
    else:
        an = X.etree_anomalies(root)
        if an:
            out.append((f"tree-anomaly/{suffix}", f"{text!r}: {an[:3]}"))
    if case.get("file") and not out:
        # the same body as a complete file under a version-1 and a version-2 header: header handling hands the body
        # over verbatim, so the tree is the same
        for nm, hdr in (("v1-header", HDR_V1), ("v2-header", HDR_V2)):
            try:
                r2 = parse_file_with_library(text, hdr)
            except Exception as e:
                out.append((f"file-rejected/{nm}/{suffix}", f"{text!r}: {e!r}"))
                continue
            g2 = X.from_etree(r2) if r2 is not None else None
            if g2 != want:
                out.append((f"file-wrong-tree/{nm}/{suffix}", f"{text!r} parsed as {g2!r}, expected {want!r}"))
    return out


# ---- exhaustive small trees ----------------------------------------------------------
SMALL_GAPS = ["", "\n", " "]
SMALL_DATA = ["x", "a&amp;b >c"]


def shapes(n):
    """All ordered forests... returns list of shapes for a tree with exactly n nodes: shape = list of child shapes
    or 'L' for a leaf; root is always an aggregate."""

    def forests(k):
        # forests with exactly k nodes
        if k == 0:
            yield []
            return
        for first in range(1, k + 1):
            for t in trees(first):
                for rest in forests(k - first):
                    yield [t] + rest

    def trees(k):
        if k == 1:
            yield "L"
            yield []  # empty aggregate
            return
        for f in forests(k - 1):
            yield f

    return list(forests(n - 1))


def variants(shape, tags, idx, top=False):
    """Yield (text, plain) for every rendering of `shape` (a node: 'L' or list)."""
    tag = tags[idx[0] % len(tags)]
    idx[0] += 1
    if shape == "L":
        res = []
        for d in SMALL_DATA:
            opts = [(True, False), (False, False)]
            if "&" not in d:
                opts += [(True, True), (False, True)]
            for end, cd in opts:
                body = ("<![CDATA[%s]]>" % d) if cd else d
                for ga in SMALL_GAPS:
                    res.append(("<%s>%s%s%s" % (tag, body, ("</%s>" % tag) if end else "", ga), [tag, d, []], (not end), cd, (not end)))
        return res
    child_vars = [variants(c, tags, idx) for c in shape]
    return _agg_variants(tag, child_vars) if top else list(_agg_variants(tag, child_vars))


def _agg_variants(tag, child_vars):
    for g in SMALL_GAPS:
        for ga in SMALL_GAPS:
            for combo in itertools.product(*child_vars):
                # inherently ambiguous in the syntax: an unclosed data element that is the last child of an
                # aggregate with the same tag (its parent's end tag reads as its own) - not generated
                if combo and combo[-1][1][0] == tag and combo[-1][1][1] is not None and combo[-1][4]:
                    continue
                text = "<%s>%s%s</%s>%s" % (tag, g, "".join(c[0] for c in combo), tag, ga)
                yield (text, [tag, None, [c[1] for c in combo]], any(c[2] for c in combo), any(c[3] for c in combo), False)


def _enum_worker(job):
    H.setup_path()
    nnodes, shape_idx, scheme = job
    s = H.Stats()
    shape = shapes(nnodes)[shape_idx]
    tags = ["OFX", "A1", "B.C", "D_E"] if scheme == 0 else ["T"]
    n = nt = 0
    # odd shards: the enumeration runs after a parse that failed with elements still open
    bad = shape_idx if (shape_idx + nnodes) % 2 else None
    if bad is not None:
        _fail_a_parse(bad)
        s.label("enumeration shards run after a failed parse")
    for text, want, unclosed, cd, _ in variants(shape, tags, [0], top=True):
        n += 1
        nontrivial = unclosed or cd
        nt += bool(nontrivial)
        try:
            root = parse_with_library(text)
            ok = root is not None and X.from_etree(root) == want and not X.etree_anomalies(root)
        except Exception:
            ok = False
        if not ok:
            case = {"text": text, "want": want}
            if bad is not None:
                case["after_bad"] = bad
            for k, d in check_case(case):
                s.fail(k, case, d)
        elif n % 5003 == 0:
            s.sample({"text": text, "want": want})
    s.count(n, nontrivial_enum=nt)
    s.label("enumerated-small-tree-renderings", n)
    return s


def _sample_worker(job):
    H.setup_path()
    n, seed, max_leaves = job
    s = H.Stats()

    def body(node):
        acc = classify_rendering(node)
        nontrivial = acc["unclosed"] > 0 or acc["cdata"] > 0 or len(acc["gaps"]) >= 2
        labs = []
        if acc["unclosed"]:
            labs.append("omits end tag")
        if acc["cdata"]:
            labs.append("uses CDATA")
        if acc["cdata_ws"]:
            labs.append("whitespace around CDATA")
        if acc["cdata"] >= 2:
            labs.append(">=2 CDATA sections")
        if len(acc["gaps"]) >= 2:
            labs.append("mixed gap kinds")
        nn = count_nodes(node)
        labs.append("nodes:" + ("1-5" if nn <= 5 else "6-20" if nn <= 20 else "21+"))
        labs.append("depth:" + str(min(depth(node), 6)))
        toks = X.tokens_of(node)
        for a, b in zip(toks, toks[1:]):
            labs.append(f"pair:{a}>{b}")
        text = X.render(node)
        case = {"tree": node}
        h = H.chash(text)
        if h[-1] in "01234567":
            case["file"] = True
            labs.append("also as a complete file (v1 and v2 header)")
        if h[-2] in "0123":
            case["after_bad"] = int(h[-3], 16)
            labs.append("after a failed parse")
        s.case(case, nontrivial=nontrivial, labels=labs, h=h)
        for k, d in check_case(case):
            s.fail(k, case, d)

    H.hyp_run(tree_st(max_leaves), body, n, seed, stats=s)
    return s


def large_tree(n, shift, style):
    """A body of some tens of kilobytes: n leaves under a few aggregates, every third one CDATA-wrapped, some without end
    tag; `shift` moves everything by a few characters so that fixed block boundaries fall on every kind of token."""
    kids = [{"t": "PAD", "d": "p" * (shift + 1), "end": True, "ga": ""}]
    group = []
    for i in range(n):
        leaf = {"t": "L%d" % (i % 7), "d": ("v%d %s" % (i, "x" * (i % 5))).strip(), "end": (i + style) % 4 != 0, "ga": "\n" if i % 11 == 0 else ""}
        if i % 3 == style % 3:
            leaf["cdata"] = True
        group.append(leaf)
        if len(group) == 50:
            kids.append({"t": "G", "c": group, "g": "", "ga": ""})
            group = []
    if group:
        kids.append({"t": "G", "c": group, "g": "", "ga": ""})
    return disambiguate({"t": "OFX", "c": kids, "g": "", "ga": ""})


def _large_worker(jobs):
    H.setup_path()
    s = H.Stats()
    for n, shift, style in jobs:
        case = {"large": [n, shift, style], "file": True}
        text = X.render(large_tree(n, shift, style))
        s.case({"large": [n, shift, style]}, nontrivial=True, labels=["large body (%d KB)" % (len(text) // 1024)])
        for k, d in check_case(case):
            s.fail(k + "/large-body", case, d[:300])
    return s


def run(ctx):
    sizes = [(800, 0), (1500, 3), (3000, 1), (6000, 2)] if not ctx.thorough else [(n, 0) for n in (800, 1100, 1500, 2300, 3000, 4500, 6000, 9000)]
    ctx.pmap(_large_worker, [[(n, sh + k, st_) for st_ in (0, 1, 2)] for n, sh in sizes for k in (0, 4)])
    nmax = ctx.scale(4, 5)
    jobs = []
    for nn in range(1, nmax + 1):
        for i in range(len(shapes(nn))):
            for scheme in (0, 1):
                jobs.append((nn, i, scheme))
    ctx.pmap(_enum_worker, jobs)
    ctx.note("exhaustive_subspace", f"all trees with <= {nmax} nodes x 2 tag schemes x data {SMALL_DATA} x end-tag/CDATA choices x gaps {SMALL_GAPS}")
    n = ctx.scale(500, 10000)
    ctx.pmap(_sample_worker, [(n, ctx.sub_seed(sh), 40 if sh % 8 == 0 else 8) for sh in range(16)])
    missing = [f"pair:{a}>{b}" for a in ("agg-open", "agg-close", "leaf-close", "leaf-unclosed", "empty-agg") for b in ("agg-open", "agg-close", "leaf-data", "leaf-cdata", "empty-agg") if ctx.labels.get(f"pair:{a}>{b}", 0) == 0 and not (a == "agg-open" and b == "agg-close")]
    ctx.note("adjacent_token_pairs_never_generated", missing)
    # supplementary: coverage-guided byte-level fuzzing (atheris); a body the strict scanner finds well-formed must
    # parse to exactly the scanner's tree
    from pbt.core import fuzzrun

    res = fuzzrun.campaign("C02", ctx.scale(60000, 1500000), ctx.sub_seed("fuzz"))
    ctx.note("atheris_campaign", {k: v for k, v in res.items() if k != "finding"})
    if "finding" in res:
        from pbt.core import refofx

        text = res["finding"]["text"]
        v = refofx.classify(text)
        if v[0] == refofx.WELL_FORMED:
            case = {"text": text, "want": v[1]}
            for k, d in check_case(case):
                ctx.fail("fuzz/" + k, case, d)
    if res.get("counts"):
        ctx.count(res["counts"].get("WELL_FORMED", 0))
        ctx.label("fuzz:WELL_FORMED", res["counts"].get("WELL_FORMED", 0))
