"""C11 - everything the serializer writes is lexically valid OFX for its declared type."""
from __future__ import annotations

import warnings

from hypothesis import strategies as st

from pbt.core import harness as H
from pbt.core import modelgen as M
from pbt.core import reftypes as R
from pbt.core import refofx as X

PID = "C11"
LEVEL = "exploration"
RULE = (
    "instances of every class built from *wide* scalar domains: decimals over the whole Decimal space (exponents -30..+30, "
    "normalised values, signed zeros, NaN, sNaN, +-Infinity), strings over all printable characters with & < > ]]> and "
    "entity-looking text favoured, aware date-times 0001-9998 with any fixed offset (seconds resolution) and zone names "
    "containing markup, integers incl. boundaries.  For every instance the library accepts: each data element of to_etree() "
    "is checked against the lexical rule of its *declared* type, and in each of the 6 wire forms the body is tokenised by an "
    "independent lexer: no raw '<' in data, every '&' starts an entity, and the decoded data elements are exactly those of the "
    "element tree.  A refusal (exception) at construction or serialisation is allowed and counted.  non-trivial = accepted "
    "instance containing a decimal with exponent > 0 or < -6 or a special value, or a string with & or <, or a zone name with "
    "markup; distinct by description hash"
)
ASSUMPTIONS = [
    "lexical rules: Y|N; [+-]?digits; [+-]?digits([.,]digits)? (no exponent/NaN/Infinity); YYYYMMDDHHMMSS.XXX[sH[.MM][:name]]; declared tokens; strict strings <= limit",
    "entities accepted on the wire: &amp; &lt; &gt; &quot; &apos; &nbsp; and numeric references",
]

from pbt.checks.c01 import FORMS


def attr_of_tag(cls, tag):
    for attr, kind, t in M.decl(cls):
        if M.tag_of(cls, attr) == tag:
            return attr, kind, t
    return None


def check_tree(elem, cls, out, path=""):
    """Lexical check of every data element against its declared type."""
    from ofxtools import Types

    p = path + "/" + cls.__name__
    for child in elem:
        found = attr_of_tag(cls, child.tag)
        if found is None:
            out.append(("undeclared-tag-written", f"{p}: <{child.tag}>"))
            continue
        attr, kind, t = found
        if kind in ("sub", "listagg"):
            check_tree(child, t.__type__, out, p)
            continue
        if kind == "listelem":
            t = t.converter
        text = child.text
        bad = lexical_violation(t, text)
        if not bad and isinstance(t, Types.OneOf) and isinstance(text, str):
            bad = token_shape_violation(cls.__name__, attr, text)
        if bad:
            out.append((bad, f"{p}.{attr}: wrote {text!r}"))


def token_shape_violation(clsname, attr, text):
    """A token the running library declares but the baseline did not (pbt/data/enum_tokens.json) may be a legitimate
    addition - if it looks like its neighbours: the same length range and alphabet as the tokens the baseline declares for
    that element (currency codes are three capitals, ...)."""
    from pbt.checks.c03 import _snapshot

    base = _snapshot().get(clsname, {}).get(attr)
    if not base or text in base:
        return None
    lens = {len(x) for x in base}
    alphabet = set("".join(base))
    if not (min(lens) <= len(text) <= max(lens)) or not set(text) <= alphabet:
        return "token-unlike-the-declared-ones"
    return None


def lexical_violation(t, text):
    from ofxtools import Types

    if not isinstance(text, str):
        return "non-text-written"
    if isinstance(t, Types.Bool):
        return None if R.RE_BOOL.match(text) else "bool-not-Y-or-N"
    if isinstance(t, Types.OneOf):
        return None if text in t.valid else "token-not-declared"
    if isinstance(t, Types.Integer):
        return None if R.RE_INT.match(text) else "integer-not-digits"
    if isinstance(t, Types.Decimal):
        if R.RE_DECIMAL.match(text):
            return None
        low = text.lower()
        if "nan" in low or "inf" in low:
            return "decimal-special-value-written"
        if "e" in low:
            return "decimal-exponent-notation-written"
        return "decimal-not-plain-notation"
    if isinstance(t, Types.Time):
        return None if R.parse_written_time(text) else "time-not-canonical"
    if isinstance(t, Types.DateTime):
        return None if R.parse_written_dt(text) else "datetime-not-canonical"
    if isinstance(t, Types.String):
        if t.strict and t.length is not None and len(text) > t.length:
            return "string-over-limit-written"
        return None
    return None


def etree_leaves(elem, out):
    for c in elem:
        if len(c) == 0:
            tx = (c.text or "").strip()
            if tx:
                out.append((c.tag, tx))
        else:
            etree_leaves(c, out)
    return out


def wire_violations(body, et, form):
    """Independent lexer over the wire body."""
    out = []
    try:
        toks = X.lex(body)
    except ValueError as e:
        return [(f"wire-not-lexable/{form}", f"{e}: {body[:200]!r}")]
    leaves = []
    for i, tk in enumerate(toks):
        if tk.kind == "text" and tk.val.strip():
            data = tk.val.strip()
            j = 0
            while True:
                j = data.find("&", j)
                if j < 0:
                    break
                if not R.RE_ENTITY.match(data, j):
                    out.append((f"raw-ampersand-on-wire/{form}", f"{data!r}"))
                    break
                j += 1
            prev = toks[i - 1] if i else None
            if prev is None or prev.kind != "start":
                out.append((f"text-outside-element-on-wire/{form}", f"{data!r}"))
            else:
                leaves.append((prev.val, R.decode_entities(data)))
        elif tk.kind == "cdata":
            out.append((f"unexpected-cdata-on-wire/{form}", tk.val[:50]))
    want = etree_leaves(et, [])
    if not out and sorted(leaves) != sorted(want):
        extra = [x for x in leaves if x not in want][:2]
        missing = [x for x in want if x not in leaves][:2]
        out.append((f"wire-data-differs-from-tree/{form}", f"on wire only: {extra!r}; in tree only: {missing!r}"))
    return out


def check_case(case):
    H.setup_path()
    from ofxtools.Client import OFXClient

    if case.get("kind") == "list-mutation":
        return check_list_mutation(case)
    desc = case["inst"]
    out = []
    with warnings.catch_warnings():
        warnings.simplefilter("ignore")
        try:
            inst = M.build(desc)
            et = inst.to_etree()
        except Exception:
            return []  # refused: allowed
        check_tree(et, type(inst), out)
        out = out[:4]
        for name, major, close, pretty in FORMS:
            version = case.get("v1", 102) if major == 1 else case.get("v2", 203)
            try:
                data = OFXClient("https://x.invalid", version=version, prettyprint=pretty, close_elements=close).serialize(inst)
            except Exception:
                continue
            text = data.decode("utf_8")
            body = text[text.index("<" + type(inst).__name__ + ">") :] if ("<" + type(inst).__name__ + ">") in text else text
            out += wire_violations(body, et, name)[:2]
    return out


def list_mutation_cases():
    """ElementList classes: a member appended through the list interface after construction is not validated at that
    moment; when the instance is written the member must be refused or written validly."""
    from ofxtools import Types

    out = []
    for name, cls in sorted(M.universe().items()):
        le = M.list_elem(cls)
        if not le:
            continue
        conv = le[1].converter
        bad = []
        if isinstance(conv, Types.String) and conv.length is not None:
            bad += ["x" * (conv.length + 1), "y" * (conv.length + 40)]
        if isinstance(conv, Types.OneOf):
            bad += ["ZZ_NOT_A_TOKEN", str(conv.valid[0]).lower() + "q"]
        if isinstance(conv, Types.Integer):
            bad += [10 ** ((conv.length or 6) + 1), "12x"]
        for b in bad:
            out.append({"kind": "list-mutation", "cls": name, "member": b})
    return out


def check_list_mutation(case):
    from ofxtools import Types

    cls = M.universe()[case["cls"]]
    le = M.list_elem(cls)
    out = []
    with warnings.catch_warnings():
        warnings.simplefilter("ignore")
        desc = M.minimal(cls, with_member=M.minimal_scalar(le[1]))
        for how in ("append", "insert"):
            try:
                x = M.build(desc)
            except Exception as e:
                raise H.HarnessError(f"minimal {case['cls']}: {e!r}")
            getattr(x, how)(*((case["member"],) if how == "append" else (0, case["member"])))
            try:
                et = x.to_etree()
            except Exception:
                continue  # refused: fine
            tmp = []
            check_tree(et, cls, tmp)
            for k, d in tmp:
                out.append((f"{k}/member-added-after-construction", f"{case['cls']}.{how}({case['member']!r}): {d}"))
    return out


def wide_stats(desc, acc=None):
    acc = acc if acc is not None else {"dec_exp": 0, "dec_special": 0, "markup": 0, "zone_markup": 0}
    for v in list(desc["kw"].values()) + list(desc["list"]):
        if M.is_scalar(v):
            if v[0] == "dec":
                low = v[1].lower()
                if "nan" in low or "inf" in low:
                    acc["dec_special"] += 1
                else:
                    import decimal

                    e = decimal.Decimal(v[1]).as_tuple().exponent
                    if e > 0 or e < -6:
                        acc["dec_exp"] += 1
            elif v[0] == "str" and any(c in v[1] for c in "&<"):
                acc["markup"] += 1
            elif v[0] == "dtw" and v[9] and any(c in v[9] for c in "&<>]"):
                acc["zone_markup"] += 1
        else:
            wide_stats(v, acc)
    return acc


def _worker(job):
    H.setup_path()
    names, n, seed = job
    s = H.Stats()
    U = M.universe()
    M.WIDE_MODE[0] = True
    try:
        for name in names:
            cls = U[name]
            strat = st.builds(lambda d, a, b: {"inst": d, "v1": a, "v2": b}, M.instance_st(cls), st.sampled_from([102, 103, 151, 160]), st.sampled_from([200, 203, 211, 220]))

            def body(case):
                stt = wide_stats(case["inst"])
                try:
                    with warnings.catch_warnings():
                        warnings.simplefilter("ignore")
                        M.build(case["inst"]).to_etree()
                    accepted = True
                except Exception as e:
                    accepted = False
                    s.exc(e)
                labs = ["accepted and written" if accepted else "refused"]
                for k, v in stt.items():
                    if v:
                        labs.append("has:" + k)
                s.case(case, nontrivial=accepted and any(stt.values()), labels=labs)
                for k, d in check_case(case):
                    s.fail(k, case, d)

            H.hyp_run(strat, body, n, H.derive_seed(seed, name), stats=s)
            s.label("classes covered")
    finally:
        M.WIDE_MODE[0] = False
    return s


def run(ctx):
    H.setup_path()
    for c in list_mutation_cases():
        ctx.case(c, nontrivial=True, labels=["list member added after construction"])
        for k, d in check_case(c):
            ctx.fail(k, c, d)
    names = sorted(M.universe())
    n = ctx.scale(16, 150)
    ctx.pmap(_worker, [(names[i::48], n, ctx.sub_seed("cls")) for i in range(48)])
