"""C04 - every constraint a model class declares is enforced at every way of building it."""
from __future__ import annotations

import copy
import decimal
import warnings
import xml.etree.ElementTree as ET

from hypothesis import strategies as st

from pbt.core import harness as H
from pbt.core import modelgen as M
from pbt.core import docgen as D
from pbt.core import validator as V

PID = "C04"
LEVEL = "exploration"
RULE = (
    "obligations enumerated from declarations for every class: required child omitted; every pair of an at-most-one group "
    "(groups collected over all bases); two / zero members of an exactly-one group; foreign enumeration token (new token and "
    "case variant); string of length limit+1 (rejected) and exactly limit (accepted); integer 10^n (rejected) and 10^n-1 "
    "(accepted); adjacent non-list children swapped and non-repeatable child duplicated (etree route); list member of a "
    "non-permitted type and undeclared keyword (constructor route); the hand-tabled custom constraints - each on both routes "
    "(keyword/positional construction, Aggregate.from_etree on a harness-built tree) with minimal valid surrounding content "
    "(thorough: also Hypothesis-generated content); every obligation is evaluated twice - as first use of the class, and again "
    "after the public class-level tables of all classes have been read and the non-concrete base classes instantiated, bases "
    "before subclasses.  Random regime: 1-3 mutations of generated valid trees; every instance "
    "that comes back is run through an independent validator.  non-trivial = every obligation (distinct (class, constraint, "
    "route) triple) and every accepted mutated tree"
)
ASSUMPTIONS = [
    "rejected = any Exception and no instance",
    "not asserted: over-long NagString (warn-only by design), foreign tags via the etree route (ignored per C07), constraints the OFX spec has but no class declares",
]


# ---------------------------------------------------------------------------
# obligations
# ---------------------------------------------------------------------------
def obligations(cls):
    from ofxtools import Types

    name = cls.__name__
    d = M.decl(cls)
    opt, req = M.mutex_groups(cls)
    mt = M.member_types(cls)
    out = []
    nonlist = [(a, k, t) for a, k, t in d if k in ("elem", "sub")]
    for a, k, t in nonlist:
        in_req_group = any(a in g for g in req)
        if t.required:
            out.append({"kind": "required-omitted", "attr": a})
            if k == "elem":
                # present as a keyword but without a value: no value is no value
                out.append({"kind": "required-given-empty", "attr": a, "value": ""})
                out.append({"kind": "required-given-empty", "attr": a, "value": None})
        if k == "elem":
            tt = t
            if isinstance(tt, Types.OneOf):
                out.append({"kind": "foreign-token", "attr": a, "token": "ZZ_NOT_A_TOKEN"})
                first = next((x for x in tt.valid if isinstance(x, str) and x.lower() != x), None)
                if first is not None and first.lower() not in tt.valid:
                    out.append({"kind": "foreign-token", "attr": a, "token": first.lower()})
            elif isinstance(tt, Types.String) and tt.length is not None and tt.length <= 2000:
                if tt.strict:
                    out.append({"kind": "string-over-limit", "attr": a, "n": tt.length + 1})
                out.append({"kind": "string-at-limit", "attr": a, "n": tt.length})
                # the limit applies to the *decoded* data: n characters that each need escaping on the wire
                out.append({"kind": "string-at-limit", "attr": a, "n": tt.length, "ch": "&"})
                if tt.strict:
                    out.append({"kind": "string-over-limit", "attr": a, "n": tt.length + 1, "ch": "<"})
                    # over the limit by one blank / no-break space / combining mark
                    for tail in (" ", "\u00a0", "\u0301"):
                        out.append({"kind": "string-over-limit", "attr": a, "n": tt.length + 1, "tail": tail})
            elif isinstance(tt, Types.Integer) and tt.length is not None:
                out.append({"kind": "integer-over-limit", "attr": a, "value": 10**tt.length})
                out.append({"kind": "integer-over-limit-negative", "attr": a, "value": -(10**tt.length)})
                out.append({"kind": "integer-at-limit", "attr": a, "value": 10**tt.length - 1})
                # the same over-limit number handed over as another numeric Python type (keyword route)
                out.append({"kind": "integer-over-limit-as-number", "attr": a, "value": ["raw_dec", str(10**tt.length)]})
                out.append({"kind": "integer-over-limit-as-number", "attr": a, "value": ["raw_dec", "1E+%d" % tt.length]})
                out.append({"kind": "integer-over-limit-as-number", "attr": a, "value": ["raw_float", float(10**tt.length)]})
        out.append({"kind": "duplicate-child", "attr": a})
    for (a, _, _), (b, _, _) in zip(nonlist, nonlist[1:]):
        out.append({"kind": "swap-children", "a": a, "b": b})
    for g in opt:
        g2 = [a for a in g]
        for i in range(len(g2)):
            for j in range(i + 1, len(g2)):
                out.append({"kind": "two-of-at-most-one", "a": g2[i], "b": g2[j]})
    for g in req:
        out.append({"kind": "none-of-exactly-one", "group": list(g)})
        for i in range(len(g)):
            for j in range(i + 1, len(g)):
                out.append({"kind": "two-of-exactly-one", "a": g[i], "b": g[j], "group": list(g)})
    if M.has_list(cls) and not M.list_elem(cls):
        out.append({"kind": "foreign-member-type"})
        # a type the class does know - as a *singular* child - is not a permitted list member either
        permitted = {c.__name__ for c in mt.values()}
        for a, k, t in d:
            if k == "sub" and t.__type__.__name__ not in permitted:
                out.append({"kind": "foreign-member-type", "member": t.__type__.__name__})
    if M.list_elem(cls):
        # classes whose members are data: an aggregate is no member - not as one of several, not as the only one
        out.append({"kind": "foreign-member-type", "member": "STATUS", "only": True})
        out.append({"kind": "foreign-member-type", "member": "BAL", "only": False})
    out.append({"kind": "undeclared-keyword"})
    # sequence order also binds list members against their non-list neighbours, and Unsupported children
    lst = [(a, k, t) for a, k, t in d if k in ("listagg",)]
    uns = [a for a, k, t in d if k == "unsupported"]
    if lst:
        out.append({"kind": "list-member-out-of-order"})
    if lst and uns:
        out.append({"kind": "unsupported-between-list-members", "attr": uns[0]})
    for c in CUSTOM.get(name, []):
        out.append({"kind": "custom", "which": c})
    for o in out:
        o["cls"] = name
    return out


# custom constraint violations: name -> list of labels handled in make_custom()
CUSTOM = {
    "ACCTINFO": ["no-members", "two-of-one-service"],
    "CONTRIBINFO": ["no-members"],
    "MFACHALLENGERS": ["no-members"],
    "MSGSETCORE": ["no-members"],
    "MSGSETLIST": ["no-members"],
    "TAX1099MSGSRQV1": ["no-members"],
    "TAX1099MSGSRSV1": ["no-members"],
    "TAX1099MSGSETV1": ["no-members"],
    "TAX1099RS": ["no-tax-form"],
    "CONTRIBSECURITY": ["mixed-pct-amt", "no-source"],
    "EXTDPAYEE": ["payeeid-without-name"],
    "EXTDPMT": ["neither-dsc-nor-inv"],
    "OFX": ["mixed-rq-rs"],
    "SONRQ": ["userkey-and-userid", "userkey-and-userid-only", "userid-without-userpass", "no-credentials"],
    "TAX1099MISC_V100": ["sttaxwh-without-payerstate", "sttaxwh-and-addlsttaxwhagg"],
    "TAX1099INT_V100": ["forcnt-and-forincome"],
    "TAX1099DIV_V100": ["forcnt-and-forincome"],
    "TAX1099R_V100": ["taxamt-without-irasepsimp"],
}


def make_custom(cls, which):
    U = M.universe()
    types = {a: t for a, _, t in M.decl(cls)}
    d = M.minimal(cls)
    if which == "no-members":
        d["list"] = []
    elif which == "two-of-one-service":
        d["list"] = [d["list"][0], copy.deepcopy(d["list"][0])]
    elif which == "no-tax-form":
        d["list"] = [M.minimal(U["FIDIRECTDEPOSITINFO"])] if "fidirectdepositinfo" in M.member_types(cls) else []
    elif which == "mixed-pct-amt":
        d["kw"] = {"secid": d["kw"]["secid"], "pretaxcontribpct": M.minimal_scalar(types["pretaxcontribpct"]), "pretaxcontribamt": M.minimal_scalar(types["pretaxcontribamt"])}
    elif which == "no-source":
        d["kw"] = {"secid": d["kw"]["secid"]}
    elif which == "payeeid-without-name":
        d = M.minimal(cls, with_attr="payeeid")
        d["kw"].pop("name", None)
    elif which == "neither-dsc-nor-inv":
        d["kw"].pop("extdpmtdsc", None)
        d["list"] = []
    elif which == "mixed-rq-rs":
        d = M.minimal(cls, with_attr="signonmsgsrqv1")
        d["kw"]["bankmsgsrsv1"] = M.minimal(U["BANKMSGSRSV1"])
    elif which == "userkey-and-userid":
        d["kw"]["userkey"] = ["str", "k"]
    elif which == "userkey-and-userid-only":
        d["kw"]["userkey"] = ["str", "k"]
        d["kw"].pop("userpass", None)
    elif which == "userid-without-userpass":
        d["kw"].pop("userpass", None)
    elif which == "no-credentials":
        d["kw"].pop("userid", None)
        d["kw"].pop("userpass", None)
        d["kw"].pop("userkey", None)
    elif which == "sttaxwh-without-payerstate":
        d["kw"]["sttaxwh"] = ["dec", "1.00"]
        d["kw"].pop("payerstate", None)
    elif which == "sttaxwh-and-addlsttaxwhagg":
        d["kw"]["sttaxwh"] = ["dec", "1.00"]
        d["kw"]["payerstate"] = ["str", "NY"]
        d["list"].append(M.minimal(U["ADDLSTTAXWHAGG"]))
    elif which == "forcnt-and-forincome":
        d["kw"]["forcnt"] = ["str", "FR"]
        d["list"].append(M.minimal(U["FORINCOME"]))
    elif which == "taxamt-without-irasepsimp":
        d["kw"]["taxamt"] = ["dec", "1.00"]
        d["kw"].pop("irasepsimp", None)
    else:
        raise H.HarnessError(which)
    return d


def _with(cls, attrs, base=None, consistent=False):
    """Minimal valid description containing all `attrs` (attrs may belong to the same exclusivity group)."""
    d = copy.deepcopy(base) if base is not None else M.minimal(cls, with_attr=attrs[0] if attrs else None)
    types = {a: (k, t) for a, k, t in M.decl(cls)}
    mt = M.member_types(cls)
    opt, req = M.mutex_groups(cls)
    for a in attrs:
        # other members of a's exclusivity groups must go (unless the obligation is about that very pair)
        for g in list(opt) + list(req):
            if a in g:
                for other in g:
                    if other not in attrs:
                        d["kw"].pop(other, None)
                        if other in mt:
                            d["list"] = [m for m in d["list"] if not (isinstance(m, dict) and m["cls"] == mt[other].__name__)]
    if "forcnt" in attrs:
        d["list"] = [m for m in d["list"] if not (isinstance(m, dict) and m["cls"] == "FORINCOME")]
    if "sttaxwh" in attrs:
        d["list"] = [m for m in d["list"] if not (isinstance(m, dict) and m["cls"] == "ADDLSTTAXWHAGG")]
    for a in attrs:
        if a in mt:
            if not any(isinstance(m, dict) and m["cls"] == mt[a].__name__ for m in d["list"]):
                d["list"].append(M.minimal(mt[a]))
        elif a not in d["kw"]:
            k, t = types[a]
            d["kw"][a] = M.minimal_scalar(t) if k == "elem" else M.minimal(t.__type__)
    if base is not None and consistent:
        # boundary obligations (must be accepted): generated surrounding content was consistent with the class's hand-written constraints before `attrs` were
        # added; make it so again (only ever adds what such a constraint asks for)
        if cls.__name__ == "SONRQ":
            # user id + password and user key exclude each other (hand-written rule): the element under test stays
            if any(a in ("userid", "userpass") for a in attrs):
                d["kw"].pop("userkey", None)
                for a in ("userid", "userpass"):
                    d["kw"].setdefault(a, M.minimal_scalar(types[a][1]))
            elif "userkey" in attrs:
                d["kw"].pop("userid", None)
                d["kw"].pop("userpass", None)
        else:
            M._apply_fixers_deterministic(d)
    return d


def build_violation(ob, base=None):
    """-> (description-or-None, etree-or-None, expect) ; expect in {'reject','accept'}"""
    cls = M.universe()[ob["cls"]]
    kind = ob["kind"]
    expect = "accept" if kind in ("string-at-limit", "integer-at-limit") else "reject"
    desc, tree = None, None
    if kind == "required-omitted":
        desc = _with(cls, [], base)
        desc["kw"].pop(ob["attr"], None)
    elif kind == "foreign-token":
        desc = _with(cls, [ob["attr"]], base)
        desc["kw"][ob["attr"]] = ["raw", ob["token"]]
    elif kind in ("string-over-limit", "string-at-limit"):
        desc = _with(cls, [ob["attr"]], base, consistent=kind == "string-at-limit")
        desc["kw"][ob["attr"]] = ["str", ob.get("ch", "x") * ob["n"]] if "tail" not in ob else ["str", "x" * (ob["n"] - 1) + ob["tail"]]
    elif kind in ("integer-over-limit", "integer-over-limit-negative", "integer-at-limit"):
        desc = _with(cls, [ob["attr"]], base, consistent=kind == "integer-at-limit")
        desc["kw"][ob["attr"]] = ["int", ob["value"]]
    elif kind == "required-given-empty":
        desc = _with(cls, [ob["attr"]], base)
        desc["kw"][ob["attr"]] = ["raw", ob["value"]]
    elif kind == "integer-over-limit-as-number":
        desc = _with(cls, [ob["attr"]], base)
        desc["kw"][ob["attr"]] = ob["value"]
    elif kind in ("two-of-at-most-one", "two-of-exactly-one"):
        desc = _with(cls, [ob["a"], ob["b"]], base)
    elif kind == "none-of-exactly-one":
        desc = _with(cls, [], base)
        for a in ob["group"]:
            desc["kw"].pop(a, None)
    elif kind == "duplicate-child":
        d0 = _with(cls, [ob["attr"]], base)
        tree = D.to_etree(d0)
        tag = M.tag_of(cls, ob["attr"])
        idx = [i for i, c in enumerate(tree) if c.tag == tag]
        if not idx:
            raise H.HarnessError(f"{ob}: child not in tree")
        tree.insert(idx[0] + 1, copy.deepcopy(tree[idx[0]]))
    elif kind == "swap-children":
        d0 = _with(cls, [ob["a"], ob["b"]], base)
        # a and b may exclude each other: then there is nothing to swap
        opt, req = M.mutex_groups(cls)
        if any(ob["a"] in g and ob["b"] in g for g in list(opt) + list(req)):
            return None, None, "skip"
        tree = D.to_etree(d0)
        ta, tb = M.tag_of(cls, ob["a"]), M.tag_of(cls, ob["b"])
        ia = [i for i, c in enumerate(tree) if c.tag == ta]
        ib = [i for i, c in enumerate(tree) if c.tag == tb]
        if not ia or not ib:
            raise H.HarnessError(f"{ob}: children not in tree")
        ea, eb = tree[ia[0]], tree[ib[0]]
        tree.remove(ea)
        tree.remove(eb)
        tree.insert(ia[0], eb)
        tree.insert(ib[0], ea)
    elif kind in ("list-member-out-of-order", "unsupported-between-list-members"):
        from pbt.checks import c13

        d0 = c13.maximal(cls)
        tree = D.to_etree(d0)
        names = [a for a, k, t in M.decl(cls)]
        members = [c for c in tree if c.tag in {t.__name__ for t in M.member_types(cls).values()}]
        if kind == "list-member-out-of-order":
            nonlist = [c for c in tree if c not in members]
            if not members or not nonlist:
                return None, None, "skip"
            m = members[0]
            # move the first list member to the very front or the very end, whichever crosses a non-list child
            idx = list(tree).index(m)
            tree.remove(m)
            if any(list(tree).index(c) < idx for c in nonlist if c in list(tree)):
                tree.insert(0, m)
            else:
                tree.append(m)
        else:
            if len(members) < 2:
                return None, None, "skip"
            e = ET.Element(ob["attr"].upper())
            ET.SubElement(e, "ZZANY").text = "x"
            tree.insert(list(tree).index(members[1]), e)
        if not V.tree_violations(tree):
            return None, None, "skip"
    elif kind == "foreign-member-type":
        desc = _with(cls, [], base)
        permitted = {c.__name__ for c in M.member_types(cls).values()}
        foreign = ob.get("member") or ("STATUS" if "STATUS" not in permitted else "BAL")
        if ob.get("only"):
            desc["list"] = []
        desc["list"].append(M.minimal(M.universe()[foreign]))
    elif kind == "undeclared-keyword":
        desc = _with(cls, [], base)
        desc["kw"]["zz_not_declared"] = ["str", "x"]
    elif kind == "custom":
        desc = make_custom(cls, ob["which"])
    else:
        raise H.HarnessError(ob)
    return desc, tree, expect


def _build_raw(desc):
    """Like modelgen.build but passes 'raw' tags and undeclared keywords straight through."""
    cls = M.universe()[desc["cls"]]
    kw = {}
    for k, v in desc["kw"].items():
        if M.is_scalar(v):
            kw[k] = v[1] if v[0] == "raw" else decimal.Decimal(v[1]) if v[0] == "raw_dec" else float(v[1]) if v[0] == "raw_float" else M.untag(v)
        else:
            kw[k] = _build_raw(v)
    members = [(m[1] if m[0] == "raw" else M.untag(m)) if M.is_scalar(m) else _build_raw(m) for m in desc["list"]]
    return cls(*members, **kw)


def _to_tree_raw(desc):
    """Harness-built element tree; undeclared keywords are skipped (they cannot be expressed as a tree child order)."""
    d = copy.deepcopy(desc)
    d["kw"].pop("zz_not_declared", None)
    return D.to_etree(d)


def _safe_repr(x):
    try:
        return repr(x)[:300]
    except Exception as e:  # e.g. OFX.__repr__ needs a sign-on
        return f"<{type(x).__name__} (repr failed: {type(e).__name__})>"


def _key(ob):
    k = ob["kind"]
    cls = ob["cls"]
    if k in ("two-of-at-most-one", "two-of-exactly-one"):
        pair = {ob["a"], ob["b"]}
        if pair == {"currency", "origcurrency"}:
            return f"{k}/currency-origcurrency/{cls}"
        mt = M.member_types(M.universe()[cls])
        if ob["a"] in mt or ob["b"] in mt:
            return f"{k}/group-names-repeated-child/{cls}"
        return f"{k}/{cls}"
    if k == "custom":
        return f"custom/{cls}/{ob['which']}"
    return k


_BASES_USED = [False]


def use_base_classes_first():
    """A history every schema-reading or base-class-using caller produces: the public class-level tables of every class
    are read, and the non-concrete base classes are instantiated, bases before subclasses.  Constraints are per class -
    none of this may change what a subclass enforces."""
    if _BASES_USED[0]:
        return
    _BASES_USED[0] = True
    classes = M.all_classes_including_bases()
    classes.sort(key=lambda c: len(c.__mro__))
    with warnings.catch_warnings():
        warnings.simplefilter("ignore")
        for c in classes:
            for prop in ("spec", "spec_no_listaggregates", "elements", "subaggregates", "unsupported", "listaggregates", "listelements", "optionalMutexes", "requiredMutexes"):
                try:
                    getattr(c, prop)
                except Exception:
                    pass
            if not c.__name__.isupper():
                try:
                    c()
                except Exception:
                    pass
                try:
                    c(**{k: M.untag(M.minimal_scalar(t)) for k, kind, t in M.decl(c) if kind == "elem" and t.required})
                except Exception:
                    pass


def check_case(case):
    H.setup_path()
    from ofxtools.models.base import Aggregate

    if case.get("regime") == "random":
        return check_random(case)
    ob = case["ob"]
    base = case.get("base")
    if case.get("after_bases"):
        use_base_classes_first()
        case = {k: v for k, v in case.items() if k != "after_bases"}
        return [(k + "/after-base-classes-were-used", d) for k, d in check_case(case)]
    try:
        desc, tree, expect = build_violation(ob, base)
    except H.HarnessError:
        raise
    if expect == "skip":
        return []
    routes = []
    if desc is not None:
        if ob["kind"] not in ():
            routes.append("constructor")
        if ob["kind"] not in ("undeclared-keyword", "foreign-member-type", "integer-over-limit-as-number", "required-given-empty"):
            routes.append("etree")
    if tree is not None:
        routes.append("etree-given")
    out = []
    key = _key(ob)
    with warnings.catch_warnings():
        warnings.simplefilter("ignore")
        for route in routes:
            if case.get("route") and route.split("-")[0] != case["route"]:
                continue
            try:
                if route == "constructor":
                    inst = _build_raw(desc)
                elif route == "etree":
                    inst = Aggregate.from_etree(_to_tree_raw(desc))
                else:
                    inst = Aggregate.from_etree(tree)
            except Exception as e:
                if expect == "accept":
                    out.append((f"boundary-value-rejected/{key}", f"{ob} via {route}: {e!r}"))
                continue
            if expect == "reject":
                out.append((f"violation-accepted/{key}/{route.split('-')[0]}", f"{ob} via {route}: built {_safe_repr(inst)}"))
            else:
                vs = V.violations(inst)
                if vs:
                    out.append((f"boundary-instance-invalid/{key}", f"{ob}: {vs[:2]}"))
    return out


# ---------------------------------------------------------------------------
# random regime: mutate valid trees, validate whatever comes back
# ---------------------------------------------------------------------------
def mutate_tree(tree, muts):
    """muts: list of (op, a, b) integer-coded mutations applied to an ET tree in place."""
    nodes = [e for e in tree.iter()]
    for op, a, b in muts:
        aggs = [e for e in tree.iter() if len(e)]
        if not aggs:
            return
        parent = aggs[a % len(aggs)]
        kids = list(parent)
        i = b % len(kids)
        if op == 0:  # delete child
            parent.remove(kids[i])
        elif op == 1:  # duplicate child
            parent.insert(i + 1, copy.deepcopy(kids[i]))
        elif op == 2 and len(kids) > 1:  # swap with next
            j = (i + 1) % len(kids)
            ki, kj = kids[i], kids[j]
            parent.remove(ki)
            parent.insert(j if j > i else 0, ki) if False else parent.insert(min(j, len(parent)), ki)
        elif op == 3:  # over-long / wrong text
            leaves = [e for e in tree.iter() if not len(e) and e.text]
            if leaves:
                lf = leaves[(a + b) % len(leaves)]
                lf.text = [lf.text * 40, "ZZ_NOT_A_TOKEN", "99999999999999999999", "Q", "-" + lf.text][b % 5]
        elif op == 5:  # insert an Unsupported child of the aggregate's class (known to the class, carries no value)
            cls = M.universe().get(parent.tag)
            uns = [x for x, k, t in M.decl(cls) if k == "unsupported"] if cls is not None else []
            if uns:
                e = ET.Element(uns[b % len(uns)].upper())
                ET.SubElement(e, "ZZANY").text = "x"
                parent.insert(b % (len(parent) + 1), e)
        elif op == 4:  # move child to another aggregate
            other = aggs[(a + b + 1) % len(aggs)]
            if other is not parent and kids[i] is not other and other not in list(kids[i].iter()):
                parent.remove(kids[i])
                other.insert(b % (len(other) + 1), kids[i])


def check_random(case):
    from ofxtools.models.base import Aggregate

    with warnings.catch_warnings():
        warnings.simplefilter("ignore")
        tree = D.to_etree(case["inst"])
        mutate_tree(tree, case["muts"])
        tv = V.tree_violations(tree)
        try:
            inst = Aggregate.from_etree(tree)
        except Exception:
            return []
        if tv:
            kind = "duplicate-child" if "twice" in tv[0] else "out-of-order"
            return [(f"invalid-tree-accepted/{kind}", f"{case['inst']['cls']} muts={case['muts']}: {tv[:2]}")]
        vs = V.violations(inst)
        if vs:
            cat = vs[0].split(": ", 1)[1].split(" ")[0:3]
            return [("invalid-instance-exists/" + "-".join(cat), f"{case['inst']['cls']} muts={case['muts']}: {vs[:3]}")]
    return []


def _enum_worker(job):
    H.setup_path()
    names = job
    s = H.Stats()
    U = M.universe()
    for after in (False, True):
        # second pass: the same obligations after the base classes have been read and used (constraints are per class)
        for name in names:
            for ob in obligations(U[name]):
                case = {"ob": ob, "after_bases": True} if after else {"ob": ob}
                s.case(case, nontrivial=True, labels=["obligation:" + ob["kind"]] + (["after base classes were used"] if after else []))
                for k, d in check_case(case):
                    s.fail(k, case, d)
            if not after:
                s.label("classes covered")
    return s


def _content_worker(job):
    """thorough: the same obligations inside Hypothesis-generated surrounding content."""
    H.setup_path()
    names, n, seed = job
    s = H.Stats()
    U = M.universe()
    for name in names:
        cls = U[name]
        obs = [o for o in obligations(cls) if o["kind"] in ("required-omitted", "foreign-token", "string-over-limit", "integer-over-limit", "two-of-at-most-one", "two-of-exactly-one", "string-at-limit", "integer-at-limit")]
        if not obs:
            continue
        strat = st.builds(lambda d, i: {"ob": obs[i % len(obs)], "base": d}, M.instance_st(cls, p0=0.35, max_members=1), st.integers(0, 10**6))

        def body(case):
            # the generated content must not itself contain the other member of a group etc.: _with() adds, never removes
            ob = case["ob"]
            if ob["kind"].startswith("two-of"):
                opt, req = M.mutex_groups(cls)
                for g in list(opt) + list(req):
                    if ob["a"] in g and ob["b"] in g:
                        for a in g:
                            case["base"]["kw"].pop(a, None)
            s.case(case, nontrivial=True, labels=["obligation-in-generated-content:" + ob["kind"]])
            for k, d in check_case(case):
                s.fail(k, case, d)

        H.hyp_run(strat, body, n, H.derive_seed(seed, name), stats=s)
    return s


def _random_worker(job):
    H.setup_path()
    names, n, seed = job
    s = H.Stats()
    U = M.universe()
    from ofxtools.models.base import Aggregate

    for name in names:
        cls = U[name]
        strat = st.builds(
            lambda d, muts: {"regime": "random", "inst": d, "muts": muts},
            M.instance_st(cls, markup=False),
            st.lists(st.tuples(st.integers(0, 5), st.integers(0, 50), st.integers(0, 50)), min_size=1, max_size=3),
        )

        def body(case):
            with warnings.catch_warnings():
                warnings.simplefilter("ignore")
                tree = D.to_etree(case["inst"])
                mutate_tree(tree, case["muts"])
                try:
                    Aggregate.from_etree(tree)
                    accepted = True
                except Exception as e:
                    accepted = False
                    s.exc(e)
            s.case(case, nontrivial=accepted, labels=["mutated-tree-accepted" if accepted else "mutated-tree-rejected"])
            for k, d in check_random(case):
                s.fail(k, case, d)

        H.hyp_run(strat, body, n, H.derive_seed(seed, name, "rnd"), stats=s)
    return s


def run(ctx):
    names = sorted(M.universe())
    ctx.pmap(_enum_worker, [names[i::32] for i in range(32)])
    n = ctx.scale(6, 60)
    ctx.pmap(_random_worker, [(names[i::48], n, ctx.sub_seed("rnd")) for i in range(48)])
    if ctx.thorough:
        ctx.pmap(_content_worker, [(names[i::48], 30, ctx.sub_seed("content")) for i in range(48)])
    else:
        ctx.pmap(_content_worker, [(names[i::48], 3, ctx.sub_seed("content")) for i in range(48)])
