"""C09 - date-time and time values mean the instant the OFX notation denotes."""
from __future__ import annotations

import datetime as dt
import warnings

from hypothesis import strategies as st

from pbt.core import harness as H
from pbt.core import reftypes as R

PID = "C09"
LEVEL = "exploration"
RULE = (
    "reading: (calendar fields 1900-2200 with boundary instants favoured) x notation (date / date-time / .XXX / "
    "[offset[:name]] / offset-without-milliseconds; the same for times) x offset -12:00..+14:00 in whole minutes "
    "rendered signed/unsigned, with/without .MM x zone name -> text; expected instant from integer civil-date "
    "arithmetic; every single-field corruption of each valid text must be rejected.  writing: aware datetimes / "
    "times at microsecond resolution in fixed-offset zones (named, unnamed, nameless tzinfo) and in shared zone objects "
    "whose offset depends on the date (as zoneinfo zones do); own parser of the written form; the same instant written "
    "again in another zone.  Exhaustive table: all 1561 offsets x "
    "renderings x boundary instants.  Per-attribute sweep: every date-time / time element of every class read through the class "
    "(Aggregate.from_etree on a minimal document) with offset-bearing texts.  non-trivial = non-zero offset minutes, negative offset, day roll-over, "
    "sub-millisecond part >= 500us, or a corruption case; distinct by case hash"
)
ASSUMPTIONS = [
    "stdlib datetime arithmetic and datetime.timezone are trusted",
    "rejected = any Exception",
    "not asserted: second=60, offsets outside -12:00..+14:00 or with seconds, leading-zero offset hours",
]

NOTATIONS_DT = ["date", "dt", "dtms", "full", "nomsoff"]
NOTATIONS_T = ["t", "tms", "tfull", "tnomsoff"]
NAME_ALPHA = st.characters(min_codepoint=0x20, max_codepoint=0x7E)


def _offsets():
    return st.one_of(
        st.integers(-12 * 60, 14 * 60),
        st.sampled_from([0, -30, -1, -59, 30, 1, 59, -720, 840, 330, 345, -210, 570, -570, 765, -60, 60]),
    )


@st.composite
def read_case(draw, timekind=None):
    is_time = draw(st.booleans()) if timekind is None else timekind
    y = draw(st.one_of(st.integers(1900, 2200), st.sampled_from([1900, 1999, 2000, 2024, 2100, 2200])))
    mo = draw(st.integers(1, 12))
    dmax = R.days_in_month(y, mo)
    d = draw(st.one_of(st.integers(1, dmax), st.sampled_from([1, dmax])))
    h = draw(st.one_of(st.integers(0, 23), st.sampled_from([0, 23])))
    mi = draw(st.one_of(st.integers(0, 59), st.sampled_from([0, 59])))
    s = draw(st.one_of(st.integers(0, 59), st.sampled_from([0, 59])))
    ms = draw(st.one_of(st.integers(0, 999), st.sampled_from([0, 999, 500])))
    notation = draw(st.sampled_from(NOTATIONS_T if is_time else NOTATIONS_DT))
    f = {"kind": "read", "y": y, "mo": mo, "d": d, "h": h, "mi": mi, "s": s, "ms": ms, "notation": notation}
    if notation in ("full", "nomsoff", "tfull", "tnomsoff"):
        if draw(st.integers(0, 19)) == 0:
            f["tzonly"] = draw(st.sampled_from(sorted(R.TZ_TABLE)))
            f["off"] = R.TZ_TABLE[f["tzonly"]] * 60
        else:
            off = draw(_offsets())
            f["off"] = off
            f["sign"] = draw(st.sampled_from(["signed", "unsigned"])) if off >= 0 else "signed"
            f["mins"] = draw(st.sampled_from(["auto", "always"]))
            f["name"] = draw(st.one_of(st.none(), st.sampled_from(["GMT", "EST", "UTC", "a:b", "x]y", "[", "é"]), st.text(NAME_ALPHA, min_size=1, max_size=8)))
    return f


def _dt_type(is_time):
    from ofxtools import Types

    return Types.Time() if is_time else Types.DateTime()


def corruptions(f, text):
    """Single-field corruptions of a valid text; each must be rejected."""
    n = f["notation"]
    is_time = n.startswith("t")
    out = []
    date_len = 0 if is_time else 8
    body_end = date_len + (0 if n == "date" else 6)
    # length +-1 in the digit groups
    if not is_time:
        out.append(("date-short", text[:7] + text[8:]))
        out.append(("date-long", text[:8] + "1" + text[8:]))
        out.append(("month-13", text[:4] + "13" + text[6:]))
        out.append(("month-00", text[:4] + "00" + text[6:]))
        out.append(("day-00", text[:6] + "00" + text[8:]))
        out.append(("day-32", text[:6] + "32" + text[8:]))
        y = f["y"]
        out.append(("feb-30", "%04d0230" % y + text[8:]))
        out.append(("apr-31", "%04d0431" % y + text[8:]))
        if not R.is_leap(y):
            out.append(("feb-29-nonleap", "%04d0229" % y + text[8:]))
        out.append(("letter-in-date", text[:2] + "X" + text[3:]))
    if n == "date":
        # the bracketed offset belongs to the time of day: a bare date followed by one is outside the notation
        out.append(("date-with-offset", text + "[-6:CST]"))
        out.append(("date-with-ms", text + ".000"))
    if n != "date":
        a = date_len
        out.append(("hour-24", text[:a] + "24" + text[a + 2 :]))
        out.append(("hour-24-exactly-midnight", text[:a] + "240000" + text[a + 6 :]))
        out.append(("minute-60", text[: a + 2] + "60" + text[a + 4 :]))
        out.append(("second-61", text[: a + 4] + "61" + text[a + 6 :]))
        out.append(("time-short", text[: a + 5] + text[a + 6 :]))
        out.append(("time-long", text[: a + 6] + "0" + text[a + 6 :]))
        out.append(("letter-in-time", text[: a + 3] + "x" + text[a + 4 :]))
    if n in ("dtms", "full", "tms", "tfull"):
        a = body_end
        out.append(("ms-2-digits", text[: a + 3] + text[a + 4 :]))
        out.append(("ms-4-digits", text[: a + 4] + "0" + text[a + 4 :]))
        out.append(("ms-letter", text[: a + 1] + "a" + text[a + 2 :]))
        out.append(("ms-no-dot", text[:a] + text[a + 1 :]))
    if n in ("full", "nomsoff", "tfull", "tnomsoff") and not f.get("tzonly"):
        lb = text.index("[", body_end)
        inner = text[lb + 1 : -1]
        offpart = inner.split(":", 1)[0]
        rest = inner[len(offpart) :]
        if "." in offpart:
            hh, mm = offpart.split(".")
            out.append(("offset-minutes-1-digit", text[: lb + 1] + hh + "." + mm[:1] + rest + "]"))
        if "]" not in rest:  # otherwise dropping the last ']' just shortens the zone name
            out.append(("offset-unclosed", text[:-1]))
        out.append(("offset-letters", text[: lb + 1] + "x" + rest + "]"))
    return out


def check_case(case):
    H.setup_path()
    kind = case["kind"]
    if kind == "sweep":
        return check_sweep(case)
    out = []
    if kind == "read":
        is_time = case["notation"].startswith("t")
        T = _dt_type(is_time)
        text = R.render_dt(case)
        exp = R.expected_instant_us(case)
        try:
            val = T.convert(text)
        except Exception as e:
            if case.get("tzonly"):
                return []  # the [-:NAME] form is outside the property's notation: rejection is allowed
            key = "read-rejected"
            if case.get("off", 0) < 0 and abs(case.get("off", 0)) < 60:
                key = "read-rejected-negative-fraction"
            return [(key, f"{text!r} rejected: {e!r}")]
        if is_time:
            if not isinstance(val, dt.time) or val.utcoffset() != dt.timedelta(0):
                return [("read-time-not-utc", f"{text!r} -> {val!r}")]
            got = R.py_time_us(val)
        else:
            if not isinstance(val, dt.datetime) or val.utcoffset() != dt.timedelta(0):
                return [("read-not-utc", f"{text!r} -> {val!r}")]
            got = R.py_instant_us(val)
        if got != exp:
            off = case.get("off", 0)
            if case.get("tzonly"):
                key = "read-wrong-instant-tzname-only"
            elif -60 < off < 0:
                key = "read-wrong-instant-negative-fraction-offset"
            else:
                key = "read-wrong-instant"
            out.append((key, f"{text!r} -> {val!r}: off by {(got - exp) / 6e7} minutes"))
        if not case.get("tzonly") and not case.get("skip_corruptions"):
            for name, bad in corruptions(case, text):
                try:
                    v = T.convert(bad)
                except Exception:
                    continue
                out.append((f"corruption-accepted/{name}", f"{bad!r} (from {text!r}) accepted as {v!r}"))
    elif kind == "write":
        is_time = case["is_time"]
        T = _dt_type(is_time)
        off = case["off"]
        tz = _tz(off, case.get("name"), case.get("noname"), case.get("dst_std"))
        y, mo, d, h, mi, s, us = case["y"], case["mo"], case["d"], case["h"], case["mi"], case["s"], case["us"]
        if is_time:
            value = dt.time(h, mi, s, us, tzinfo=tz)
            true_us = (((h * 60 + mi) * 60 + s) * 10**6 + us - off * 60 * 10**6) % R.US_DAY
        else:
            value = dt.datetime(y, mo, d, h, mi, s, us, tzinfo=tz, fold=case.get("fold", 0))
            true_us = R.local_us(y, mo, d, h, mi, s, 0, us) - off * 60 * 10**6
        try:
            text = T.unconvert(value)
        except Exception as e:
            return [("write-refused", f"{value!r}: {e!r}")]
        parsed = (R.parse_written_time if is_time else R.parse_written_dt)(text) if isinstance(text, str) else None
        if parsed is None:
            return [("write-bad-form", f"{value!r} -> {text!r}")]
        inst, poff, pname = parsed

        def dist(a, b):
            dd = abs(a - b)
            return min(dd, R.US_DAY - dd) if is_time else dd

        if dist(inst, true_us) > 500:
            out.append(("write-wrong-instant", f"{value!r} -> {text!r}: denotes instant off by {dist(inst, true_us)} us"))
        if poff != off:
            out.append(("write-wrong-offset", f"{value!r} -> {text!r}: printed offset {poff} min, value has {off} min"))
        names = {value.tzname()}
        if not is_time:
            # rounding to the millisecond may carry the value across a change of the zone's name: either name will do then
            try:
                names.add((value + dt.timedelta(microseconds=500)).tzname())
            except OverflowError:
                pass
        if not case.get("noname") and pname not in names:
            out.append(("write-wrong-name", f"{value!r} -> {text!r}"))
        # write then read
        try:
            back = T.convert(text)
            got = R.py_time_us(back) if is_time else R.py_instant_us(back)
            if dist(got, true_us) > 500:
                key = "write-read-drift"
                if -60 < off < 0:
                    key = "write-read-drift-negative-fraction-offset"
                out.append((key, f"{value!r} -> {text!r} -> {back!r}: off by {dist(got, true_us)} us"))
        except Exception as e:
            out.append(("write-read-rejected", f"{value!r} -> {text!r} -> {e!r}"))
        if "twin_off" in case and not out:
            # the same instant expressed in another zone, written right afterwards: an equal-comparing value must
            # still be written with its *own* offset (guards against memoisation keyed by value equality)
            off2 = case["twin_off"]
            if is_time:
                loc2 = (true_us + off2 * 60 * 10**6) % R.US_DAY
                hh, rem = divmod(loc2, 3600 * 10**6)
                mm, rem = divmod(rem, 60 * 10**6)
                ss, us2 = divmod(rem, 10**6)
                twin = dict(case, h=hh, mi=mm, s=ss, us=us2, off=off2)
            else:
                y2, mo2, d2, h2, mi2, s2, us2 = R.fields_from_us(true_us + off2 * 60 * 10**6)
                twin = dict(case, y=y2, mo=mo2, d=d2, h=h2, mi=mi2, s=s2, us=us2, off=off2)
            twin.pop("twin_off")
            if 1900 <= twin["y"] <= 2200:
                out += [("after-equal-instant/" + k, d) for k, d in check_case(twin)]
    elif kind == "naive":
        is_time = case["is_time"]
        T = _dt_type(is_time)
        value = dt.time(case["h"], case["mi"], case["s"], case["us"]) if is_time else dt.datetime(case["y"], case["mo"], case["d"], case["h"], case["mi"], case["s"], case["us"])
        try:
            r = T.unconvert(value)
            out.append(("naive-written", f"{value!r} -> {r!r}"))
        except Exception:
            pass
        try:
            r = T.convert(value)
            out.append(("naive-accepted", f"{value!r} -> {r!r}"))
        except Exception:
            pass
    else:
        raise H.HarnessError(f"bad case {case}")
    return out


class _NoName(dt.tzinfo):
    def __init__(self, off):
        self._off = dt.timedelta(minutes=off)

    def utcoffset(self, d):
        return self._off

    def tzname(self, d):
        return None

    def dst(self, d):
        return None


class _DstZone(dt.tzinfo):
    """One tzinfo object with two offsets (like a zoneinfo zone): months 4-9 are an hour ahead of the others."""

    def __init__(self, std):
        self._std = std

    def _summer(self, d):
        # summer time from 1 April 00:00 until 1 October 00:00 (summer clock), when the clock goes back one hour: the wall
        # hour 23:00-24:00 of 30 September happens twice - fold=1 marks its second, winter-time occurrence (PEP 495)
        if d is None or not (4 <= d.month < 10):
            return False
        if d.month == 9 and d.day == 30 and d.hour == 23 and getattr(d, "fold", 0) == 1:
            return False
        return True

    def utcoffset(self, d):
        if d is None:
            return None  # as zoneinfo: without a date there is no offset
        return dt.timedelta(minutes=self._std + (60 if self._summer(d) else 0))

    def tzname(self, d):
        if d is None:
            return None
        return "XDT" if self._summer(d) else "XST"

    def dst(self, d):
        if d is None:
            return None
        return dt.timedelta(minutes=60 if self._summer(d) else 0)


_DST_ZONES = {}


def _tz(off, name, noname=False, dst_std=None):
    if dst_std is not None:
        # shared per standard offset, as zoneinfo zones are shared per key
        return _DST_ZONES.setdefault(dst_std, _DstZone(dst_std))
    if noname:
        return _NoName(off)
    if name is None:
        return dt.timezone(dt.timedelta(minutes=off))
    return dt.timezone(dt.timedelta(minutes=off), name)


@st.composite
def write_case(draw):
    is_time = draw(st.booleans())
    y = draw(st.integers(1900, 2200))
    mo = draw(st.integers(1, 12))
    dmax = R.days_in_month(y, mo)
    d = draw(st.one_of(st.integers(1, dmax), st.sampled_from([1, dmax])))
    h = draw(st.one_of(st.integers(0, 23), st.sampled_from([0, 23])))
    mi = draw(st.one_of(st.integers(0, 59), st.sampled_from([0, 59])))
    s = draw(st.one_of(st.integers(0, 59), st.sampled_from([0, 59])))
    us = draw(st.one_of(st.integers(0, 999999), st.sampled_from([0, 499, 500, 501, 999499, 999500, 999999, 1500, 2500])))
    off = draw(_offsets())
    c = {"kind": "write", "is_time": is_time, "y": y, "mo": mo, "d": d, "h": h, "mi": mi, "s": s, "us": us, "off": off}
    r = draw(st.integers(0, 5))
    if r == 0:
        c["noname"] = True
    elif r >= 3:
        c["name"] = draw(st.one_of(st.sampled_from(["EST", "a:b", "x]y", "Z"]), st.text(NAME_ALPHA, min_size=1, max_size=8)))
    if draw(st.integers(0, 2)) == 0:
        c["twin_off"] = draw(_offsets().filter(lambda o: o != off))
    if not is_time and draw(st.integers(0, 3)) == 0:
        # a zone object whose offset depends on the date (few distinct zones, so that one object is written with both offsets)
        std = draw(st.sampled_from([-300, -480, 60, 570, 0]))
        c = {k: v for k, v in c.items() if k not in ("name", "noname", "twin_off")}
        c.update(dst_std=std, off=std + (60 if 4 <= mo < 10 else 0))
        if draw(st.integers(0, 3)) == 0:
            # the repeated hour at the end of summer time, second occurrence; also the last half millisecond of summer time
            c.update(mo=9, d=30, h=23, fold=1, off=std)
        elif draw(st.integers(0, 5)) == 0:
            c.update(mo=9, d=30, h=23, mi=59, s=59, us=draw(st.sampled_from([999499, 999500, 999999])), off=std + 60)
    return c


@st.composite
def naive_case(draw):
    return {
        "kind": "naive",
        "is_time": draw(st.booleans()),
        "y": draw(st.integers(1900, 2200)),
        "mo": draw(st.integers(1, 12)),
        "d": draw(st.integers(1, 28)),
        "h": draw(st.integers(0, 23)),
        "mi": draw(st.integers(0, 59)),
        "s": draw(st.integers(0, 59)),
        "us": draw(st.integers(0, 999999)),
    }


def _nontrivial(c):
    if c["kind"] == "naive":
        return True
    off = c.get("off", 0)
    if off % 60 or off < 0:
        return True
    if c["kind"] == "write" and c["us"] % 1000 >= 500:
        return True
    loc = (c["h"] * 60 + c["mi"]) - off
    return loc < 0 or loc >= 1440


def _labels(c):
    labs = [c["kind"] + ("-time" if (c.get("is_time") or c.get("notation", "").startswith("t")) else "-datetime")]
    if "notation" in c:
        labs.append("notation:" + c["notation"])
    off = c.get("off", 0)
    if -60 < off < 0:
        labs.append("offset in (-1h,0)")
    if off % 60:
        labs.append("offset with minutes")
    if c.get("tzonly"):
        labs.append("tzname-only offset")
    if c.get("sign") == "unsigned":
        labs.append("unsigned offset")
    if c.get("name") and (":" in c["name"] or "]" in c["name"]):
        labs.append("zone name with : or ]")
    if "twin_off" in c:
        labs.append("equal instant written twice in different zones")
    if "dst_std" in c:
        labs.append("zone object with date-dependent offset")
    if c.get("fold"):
        labs.append("repeated hour, second occurrence (fold=1)")
    return labs


def _worker(job):
    H.setup_path()
    which, n, seed = job
    s = H.Stats()
    strat = {"read": read_case(), "write": write_case(), "naive": naive_case()}[which]

    def body(c):
        s.case(c, nontrivial=_nontrivial(c), labels=_labels(c))
        res = check_case(c)
        if c["kind"] == "read":
            s.label("corruptions-tried", len(corruptions(c, R.render_dt(c))) if not c.get("tzonly") else 0)
        for k, d in res:
            s.fail(k, c, d)

    H.hyp_run(strat, body, n, seed, stats=s)
    return s


def _table_worker(job):
    """Exhaustive offset table: every whole-minute offset x renderings x boundary instants."""
    H.setup_path()
    offs, instants = job
    s = H.Stats()
    for off in offs:
        for (y, mo, d, h, mi, sec, ms) in instants:
            for notation in ("full", "nomsoff", "tfull"):
                for sign in (("signed", "unsigned") if off >= 0 else ("signed",)):
                    for mins in ("auto", "always"):
                        c = {"kind": "read", "y": y, "mo": mo, "d": d, "h": h, "mi": mi, "s": sec, "ms": ms, "notation": notation, "off": off, "sign": sign, "mins": mins, "name": None, "skip_corruptions": True}
                        s.case(c, nontrivial=_nontrivial(c), labels=["offset-table"])
                        for k, dd in check_case(c):
                            s.fail(k, c, dd)
            w = {"kind": "write", "is_time": False, "y": y, "mo": mo, "d": d, "h": h, "mi": mi, "s": sec, "us": ms * 1000 + 500, "off": off}
            s.case(w, nontrivial=True, labels=["offset-table-write"])
            for k, dd in check_case(w):
                s.fail(k, w, dd)
    return s


SWEEP_TEXTS = [
    # (text for a date-time element, expected instant as civil UTC fields)
    ("20200117230000.000[-5:EST]", (2020, 1, 18, 4, 0, 0, 0)),
    ("20200630221545.250[+5.30:IST]", (2020, 6, 30, 16, 45, 45, 250)),
    ("19991231235959", (1999, 12, 31, 23, 59, 59, 0)),
]
# texts outside the notation, for the same sweep: refused wherever they stand (required or optional element alike)
SWEEP_BAD = ["20230100", "20230018120000", "00000000", "20231301", "20230132101010.000[-5:EST]", "2023011", "20230101250000"]
SWEEP_BAD_TIMES = ["250000", "126000", "12000"]
SWEEP_TIMES = [("230000.000[-5:EST]", (4, 0, 0, 0)), ("001545.250[+5.30:IST]", (18, 45, 45, 250))]


def _sweep_worker(names):
    """Every date-time and time element of every class, read through the class (Aggregate.from_etree on a minimal
    document): the notation means the same instant wherever it stands."""
    H.setup_path()
    from ofxtools import Types
    from ofxtools.models.base import Aggregate
    from pbt.core import modelgen as M, docgen as D
    from pbt.checks.c13 import _custom_patch

    s = H.Stats()
    U = M.universe()
    for name in names:
        cls = U[name]
        for attr, kind, t in M.decl(cls):
            if kind != "elem" or not isinstance(t, Types.DateTime):
                continue
            is_time = isinstance(t, Types.Time)
            for i, (text, want) in enumerate(SWEEP_TIMES if is_time else SWEEP_TEXTS):
                case = {"kind": "sweep", "cls": name, "attr": attr, "i": i}
                s.case(case, nontrivial=True, labels=["per-attribute sweep" + ("/time" if is_time else "/datetime")])
                for k, d in check_case(case):
                    s.fail(k, case, d)
            for i in range(len(SWEEP_BAD_TIMES if is_time else SWEEP_BAD)):
                case = {"kind": "sweep", "cls": name, "attr": attr, "bad": i}
                s.case(case, nontrivial=True, labels=["per-attribute sweep/corrupted text"])
                for k, d in check_case(case):
                    s.fail(k, case, d)
    return s


def check_sweep(case):
    from ofxtools import Types
    from ofxtools.models.base import Aggregate
    from pbt.core import modelgen as M, docgen as D
    from pbt.checks.c13 import _custom_patch

    cls = M.universe()[case["cls"]]
    attr = case["attr"]
    t = {a: tt for a, k, tt in M.decl(cls)}[attr]
    is_time = isinstance(t, Types.Time)
    if "bad" in case:
        text, want = (SWEEP_BAD_TIMES if is_time else SWEEP_BAD)[case["bad"]], None
    else:
        text, want = (SWEEP_TIMES if is_time else SWEEP_TEXTS)[case["i"]]
    with warnings.catch_warnings():
        warnings.simplefilter("ignore")
        try:
            desc = M.minimal(cls, with_attr=attr)
            _custom_patch(desc, attr)
            tree = D.to_etree(desc)
        except Exception as e:
            raise H.HarnessError(f"sweep {case}: {e!r}")
        tag = M.tag_of(cls, attr)
        el = [c for c in tree if c.tag == tag]
        if len(el) != 1:
            raise H.HarnessError(f"sweep {case}: <{tag}> not in the minimal document")
        el[0].text = text
        try:
            inst = Aggregate.from_etree(tree)
        except Exception as e:
            if want is None:
                return []
            return [("valid-text-rejected-in-class", f"{case['cls']}.{attr} = {text!r}: {e!r}")]
        if want is None:
            return [("corruption-accepted-in-class", f"{case['cls']}.{attr} = {text!r} converted, attribute is {M.stored(inst, attr)!r}")]
        val = M.stored(inst, attr)
    try:
        if is_time:
            got = R.py_time_us(val)
            exp = ((want[0] * 60 + want[1]) * 60 + want[2]) * 10**6 + want[3] * 1000
        else:
            got = R.py_instant_us(val)
            exp = R.local_us(*want[:6], want[6])
    except Exception as e:
        return [("read-wrong-type-in-class", f"{case['cls']}.{attr} = {text!r} -> {val!r}: {e!r}")]
    if got != exp:
        return [("read-wrong-instant-in-class", f"{case['cls']}.{attr} = {text!r} -> {val!r}: off by {(got - exp) / 6e7} minutes")]
    return []


BOUNDARY_INSTANTS = [
    (2000, 2, 29, 0, 0, 0, 0),
    (1999, 12, 31, 23, 59, 59, 999),
    (2024, 3, 1, 0, 30, 0, 1),
    (1900, 1, 1, 12, 0, 0, 0),
    (2200, 12, 31, 13, 59, 59, 500),
    (2021, 6, 15, 11, 45, 10, 123),
]


def run(ctx):
    n = ctx.scale(6000, 60000)
    jobs = []
    for which, shards, mult in (("read", 10, 1.0), ("write", 5, 1.0), ("naive", 1, 0.2)):
        for sh in range(shards):
            jobs.append((which, int(n * mult), ctx.sub_seed(which, sh)))
    ctx.pmap(_worker, jobs)
    offs = list(range(-720, 841))
    instants = BOUNDARY_INSTANTS if ctx.thorough else BOUNDARY_INSTANTS[:2]
    tj = [(offs[i::16], instants) for i in range(16)]
    ctx.pmap(_table_worker, tj)
    ctx.note("offset_table", {"offsets": len(offs), "instants": len(instants), "exhaustive_over_offsets": True})
    from pbt.core import modelgen as M

    names = sorted(M.universe())
    ctx.pmap(_sweep_worker, [names[i::16] for i in range(16)])
