"""C14 - the client sends only what it should, where it should, and nothing on a dry run."""
from __future__ import annotations

import datetime as dt
import shutil
import tempfile
import urllib.error
import urllib.parse
import warnings
from pathlib import Path

from hypothesis import strategies as st
from hypothesis.stateful import RuleBasedStateMachine, initialize, rule, precondition

from pbt.core import harness as H
from pbt.core import fakenet as F
from pbt.core import reqmodel as Q

PID = "C14"
LEVEL = "exploration"
RULE = (
    "Hypothesis rule-based state machine over 1-3 client instances (two institutions, per-client user agent / credentials / "
    "persist_cookies) and a scripted in-process HTTP server under urllib's handlers: rules = request_profile / "
    "request_statements / request_accounts / request_tax1099 x dryrun / skip_profile / normal x profile replies advertising the "
    "service URL (same URL, same host other path, other host, inconsistent per message set) x new profile / up-to-date x cookie-"
    "setting replies x server errors / transport failures.  After every rule the recorded traffic is compared with a reference "
    "model: dry run => no request and no socket attempt; exactly one POST per expected hop to the expected URL with "
    "Content-Type application/x-ofx, an Accept admitting it, the configured User-Agent, a body equal (as a parsed story, modulo "
    "UUIDs / DTCLIENT) to the dry-run serialisation; profile hops carry only the anonymous placeholder; the Cookie header equals "
    "the reference cookie jar of that client and host.  One institution's URLs carry percent-escapes and sub-delimiters (sent exactly "
    "as configured / advertised); profiles also advertise message sets the client has no use for, at other URLs; a second rule "
    "calls request_profile(url=X) and expects the one anonymous POST at X.  non-trivial = history with >=2 requests on one client after a cookie "
    "was set, or a service URL different from the configured one, or >=2 clients; distinct by hash of the operation history"
)
ASSUMPTIONS = [
    "urllib transport only (the optional 'requests' package is not installed)",
    "cookies are set without Domain attribute and with Path=/ (host-only cookies); redirects are not exercised",
]

ANON = "anonymous00000000000000000000000"
INSTITUTIONS = [
    {"P": "https://ofx.alpha-bank.com/ofx", "org": "ALPHA", "fid": "101", "S": ["https://ofx.alpha-bank.com/ofx", "https://ofx.alpha-bank.com/svc/stmt", "https://svc.alpha-data.net/ofx"]},
    {"P": "https://www.beta-bank.org/cgi/ofx", "org": "BETA", "fid": "202", "S": ["https://www.beta-bank.org/cgi/ofx", "https://www.beta-bank.org/other", "https://ofx.gamma-host.com/beta"]},
    # URLs with percent-escapes and sub-delimiters: requests go to the URL exactly as configured / advertised
    {"P": "https://ofx.delta-cu.coop/cgi-bin/ofx%20gw/a;v=1,2@x+y:z?inst=%2Fd&k=a=b", "org": "DELTA", "fid": "303",
     "S": ["https://ofx.delta-cu.coop/cgi-bin/ofx%20gw/a;v=1,2@x+y:z?inst=%2Fd&k=a=b", "https://ofx.delta-cu.coop/svc%2Fstmt;jsessionid=1?a=%41", "https://d%65lta.example.net:8443/o+f,x"]},
    # another server that reports the same ORG/FID as the first (a hosting provider's second customer): what one client
    # learnt about its server is nothing another client may use
    {"P": "https://hosted.alpha-services.net/bank2/ofx", "org": "ALPHA", "fid": "101", "S": ["https://hosted.alpha-services.net/bank2/ofx", "https://hosted.alpha-services.net/bank2/stmt", "https://stmt.alpha-services.net/b2"]},
]
REDIRECT_TARGET = "https://elsewhere.example.net/collect"
OTHER_PROFILE_URLS = ["https://profiles.example.org/prof", "https://www.beta-bank.org/cgi/ofx", "https://ofx.alpha-bank.com/alt%2Fprofile;x=1"]

STATS = None  # per worker process


def host_of(url):
    return urllib.parse.urlsplit(url).hostname


class ClientMachine(RuleBasedStateMachine):
    def __init__(self):
        super().__init__()
        H.setup_path()
        import ofxtools.config as cfg

        self.tmp = Path(tempfile.mkdtemp(prefix="verif_c14_"))
        self._old_datadir = cfg.DATADIR
        cfg.DATADIR = self.tmp
        self.cfg = cfg
        self.net = F.FakeNet(self.respond)
        self.net.__enter__()
        self.clients = []
        self.jar = []  # reference cookie model per client: {host: {name: value}}
        self.cache = {}  # (org,fid) -> True once a profile has been cached
        self.clock = 2000
        self.cookie_n = 0
        self.plan = {}
        self.history = []
        self.flags = set()
        self.failed = False
        self.foreign_cache = set()

    def teardown(self):
        self.net.__exit__(None, None, None)
        self.cfg.DATADIR = self._old_datadir
        shutil.rmtree(self.tmp, ignore_errors=True)
        if STATS is not None:
            nontrivial = bool(self.flags & {"cookie-replayed", "service-url-differs"}) or len(self.clients) >= 2
            STATS.case(self.history, nontrivial=nontrivial and len(self.history) > 0, labels=sorted(self.flags) + ["clients:%d" % len(self.clients), "steps:%d" % min(len(self.history), 10)])

    # -- scripted server ----------------------------------------------------
    def respond(self, rec):
        plan = self.plan
        is_profile = b"<PROFRQ>" in (rec["data"] or b"")
        headers = [("Content-Type", "application/x-ofx")]
        which = "profile" if is_profile else "service"
        if plan.get("fail_" + which) == "transport":
            raise urllib.error.URLError("connection refused (scripted)")
        if plan.get("fail_" + which) == "http500":
            return 500, headers, b"server error"
        if str(plan.get("fail_" + which, "")).startswith("redirect"):
            # a server that answers a POST with "go elsewhere": the request (and the credentials in it) stay where they were sent
            code = int(plan["fail_" + which][-3:])
            return code, headers + [("Location", REDIRECT_TARGET)], b""
        for name, value in plan.get("cookies_" + which, []):
            headers.append(("Set-Cookie", f"{name}={value}; Path=/"))
        rec["served_cookies"] = list(plan.get("cookies_" + which, []))
        if is_profile:
            if plan.get("profile_code", 0) == 1:
                return 200, headers, F.profile_response({}, None, code=1)
            self.clock += 1
            return 200, headers, F.profile_response(plan["urls"], F.dt_tag(self.clock), code=0)
        return 200, headers, b"<OFX>fixture reply</OFX>"

    # -- rules ----------------------------------------------------------------
    @initialize(specs=st.lists(st.tuples(st.sampled_from([0, 0, 1, 2, 3, 3]), st.booleans(), st.sampled_from(["InetClntApp/3.0", "MyAgent/1.0 (x)", "curl/8", ""]), st.sampled_from([102, 103, 203, 220])), min_size=1, max_size=3))
    def make_clients(self, specs):
        from ofxtools.Client import OFXClient

        for i, (inst, persist, ua, ver) in enumerate(specs):
            I = INSTITUTIONS[inst]
            c = OFXClient(I["P"], userid=f"user{i}-SECRETID", org=I["org"], fid=I["fid"], version=ver, bankid="123456789", brokerid="broker.example", useragent=ua, persist_cookies=persist)
            self.clients.append({"c": c, "inst": inst, "persist": persist, "ua": ua, "pw": f"pw{i}-SECRETPASS", "uid": f"user{i}-SECRETID"})
            self.jar.append({})
        self.history.append(["clients", [list(s) for s in specs]])

    @rule(
        i=st.integers(0, 2), api=st.sampled_from(["profile", "statements", "statements", "accounts", "tax1099"]), mode=st.sampled_from(["dryrun", "skip", "normal", "normal"]),
        s_choice=st.integers(0, 3), up_to_date=st.booleans(), cookie_profile=st.booleans(), cookie_service=st.booleans(), fail=st.sampled_from([None, None, None, None, None, "transport-profile", "http500-profile", "http500-service", "transport-service", "redirect307-service", "redirect308-service", "redirect307-profile", "redirect308-profile"]),
        nreq=st.integers(0, 3),
    )
    def call(self, i, api, mode, s_choice, up_to_date, cookie_profile, cookie_service, fail, nreq):
        from ofxtools.Client import StmtRq, CcStmtRq, InvStmtRq

        cl = self.clients[i % len(self.clients)]
        ci = i % len(self.clients)
        c = cl["c"]
        I = INSTITUTIONS[cl["inst"]]
        key = (I["org"], I["fid"], I["P"])
        P = I["P"]
        inconsistent = s_choice == 3
        S = I["S"][s_choice % 3]
        urls = {"BANKMSGSET": S, "CREDITCARDMSGSET": S, "INVSTMTMSGSET": S}
        if inconsistent:
            urls["INVSTMTMSGSET"] = I["S"][(s_choice + 1) % 3]
        # message sets the client has no business with, at other URLs (the profile server's own, sign-up, e-mail)
        extra = {"PROFMSGSET": I["S"][(s_choice + 2) % 3], "SIGNUPMSGSET": I["S"][(s_choice + 1) % 3], "EMAILMSGSET": OTHER_PROFILE_URLS[0]}
        code1 = up_to_date and bool(self.cache.get(key))
        self.plan = {"urls": dict(urls, **extra), "profile_code": 1 if code1 else 0}
        if code1 and api != "profile" and mode == "normal":
            # 'up to date': the service URL comes from the profile cached earlier, not from this reply
            cached = self.cache[key]
            if cached is True:
                S, inconsistent = None, None  # cached by a path the model did not follow: do not predict
            else:
                inconsistent = len(set(cached.values())) > 1
                S = cached["BANKMSGSET"]
        if cookie_profile:
            self.cookie_n += 1
            self.plan["cookies_profile"] = [(f"p{ci}", f"v{self.cookie_n}")]
        if cookie_service:
            self.cookie_n += 1
            self.plan["cookies_service"] = [("sess", f"s{self.cookie_n}")]
        if fail:
            kind, where = fail.split("-")
            self.plan["fail_" + where] = kind
        reqs = [StmtRq(acctid="111", accttype="CHECKING"), CcStmtRq(acctid="4111"), InvStmtRq(acctid="777")][:nreq]

        def invoke(dry):
            kw = {"dryrun": True} if dry else ({"skip_profile": True} if mode == "skip" else {})
            if api == "profile":
                return c.request_profile(dryrun=dry)
            if api == "statements":
                return c.request_statements(cl["pw"], *reqs, **kw)
            if api == "accounts":
                return c.request_accounts(cl["pw"], dt.datetime(2020, 1, 1, tzinfo=dt.timezone.utc), **kw)
            return c.request_tax1099(cl["pw"], "2019", "2020", acctnum="acct-9", **kw)

        step = ["call", ci, api, mode, s_choice, code1, cookie_profile, cookie_service, fail, nreq]
        self.history.append(step)
        warnings.simplefilter("ignore")
        before = len(self.net.log)
        sock_before = len(self.net.socket_attempts)
        # reference serialisation (no traffic allowed)
        try:
            dry_bytes = invoke(True).read()
        except Exception as e:
            self.fail("dry-run-raises", step, repr(e))
            return
        if len(self.net.log) != before or len(self.net.socket_attempts) != sock_before:
            self.fail("dry-run-sent-a-request", step, f"{self.net.log[before:][:1]} sockets={self.net.socket_attempts[sock_before:]}")
            return
        if mode == "dryrun":
            return
        raised = None
        try:
            invoke(False)
        except Exception as e:
            raised = e
        new = self.net.log[before:]
        if len(self.net.socket_attempts) != sock_before:
            self.fail("real-socket-attempt", step, str(self.net.socket_attempts[sock_before:]))
        for rec in new:
            if rec["url"] == REDIRECT_TARGET:
                body = rec.get("data") or b""
                self.fail("request-followed-a-redirect" + ("/with-credentials" if (cl["uid"].encode() in body or cl["pw"].encode() in body) else ""), step, f"{rec['method']} {rec['url']}")
                break
        # expected hops
        hops = []
        if api == "profile":
            hops.append(("profile", P))
        elif mode == "skip":
            hops.append(("service", P))
        else:
            hops.append(("profile", P))
            prof_ok = self.plan.get("fail_profile") is None
            if prof_ok and inconsistent is None:
                hops = None
            elif prof_ok and not inconsistent:
                hops.append(("service", S))
        if hops is None:
            self.after(ci, new, key)
            return
        if len(new) != len(hops):
            self.fail("hop-count", step, f"expected {hops}, sent {[(r['method'], r['url']) for r in new]} raised={raised!r}")
            self.after(ci, new, key)
            return
        for (what, url), rec in zip(hops, new):
            self.check_hop(step, what, url, rec, cl, ci, dry_bytes, api, P)
        self.after(ci, [], key)
        if hops and hops[0][0] == "profile" and self.plan.get("fail_profile") is None and not code1:
            self.cache[key] = dict(urls)

    @rule(i=st.integers(0, 2), u=st.integers(0, 5), cookie=st.booleans())
    def profile_at(self, i, u, cookie):
        """request_profile(url=...) : a profile request addressed, for this call, to another URL than the client's own."""
        ci = i % len(self.clients)
        cl = self.clients[ci]
        c = cl["c"]
        I = INSTITUTIONS[cl["inst"]]
        X = (OTHER_PROFILE_URLS + I["S"][1:] + [INSTITUTIONS[(cl["inst"] + 1) % len(INSTITUTIONS)]["P"]])[u % 6]
        if X == I["P"]:
            return
        self.plan = {"urls": {"BANKMSGSET": X, "CREDITCARDMSGSET": X, "INVSTMTMSGSET": X}, "profile_code": 0}
        if cookie:
            self.cookie_n += 1
            self.plan["cookies_profile"] = [(f"p{ci}", f"v{self.cookie_n}")]
        step = ["profile_at", ci, u, cookie]
        self.history.append(step)
        warnings.simplefilter("ignore")
        d = self.tmp / "fiprofiles"
        had = set(p.name for p in d.iterdir()) if d.exists() else set()
        before = len(self.net.log)
        sock_before = len(self.net.socket_attempts)
        try:
            c.request_profile(url=X, dryrun=True)
        except Exception as e:
            self.fail("dry-run-raises", step, repr(e))
            return
        if len(self.net.log) != before or len(self.net.socket_attempts) != sock_before:
            self.fail("dry-run-sent-a-request", step, f"{self.net.log[before:][:1]}")
            return
        raised = None
        try:
            c.request_profile(url=X)
        except Exception as e:
            raised = e
        new = self.net.log[before:]
        if len(new) != 1:
            self.fail("hop-count", step, f"expected one POST to {X}, sent {[(r['method'], r['url']) for r in new]} raised={raised!r}")
        else:
            self.flags.add("profile-url-given-per-call")
            self.check_hop(step, "profile", X, new[0], cl, ci, None, "profile", I["P"])
        for rec in new:
            if not rec.get("absorbed"):
                self.absorb(ci, rec)
        # whatever this call cached belongs to X, not to the client's own server: not the model's business
        now = set(p.name for p in d.iterdir()) if d.exists() else set()
        self.foreign_cache |= now - had
        # ... unless X *is* the own server of an institution the model follows and this client reports the same ORG/FID
        # (the hosting provider's two customers): the cache entry (ORG, FID, X) is that institution's, and it has just been
        # rewritten with what X answered - by a path the model does not follow, so it stops predicting from it
        for J in INSTITUTIONS:
            if J["P"] == X and (J["org"], J["fid"]) == (I["org"], I["fid"]) and len(new) == 1 and raised is None:
                self.cache[(J["org"], J["fid"], X)] = True

    def check_hop(self, step, what, url, rec, cl, ci, dry_bytes, api, P):
        pre = f"{what}-hop"
        if rec["method"] != "POST":
            self.fail(pre + "-not-POST", step, rec["method"])
        if rec["url"] != url:
            self.fail(pre + "-wrong-url", step, f"sent to {rec['url']}, expected {url}")
        h = rec["headers"]
        if h.get("content-type") != "application/x-ofx":
            self.fail("content-type", step, str(h.get("content-type")))
        acc = h.get("accept", "")
        if not any(tok.strip().split(";")[0] in ("*/*", "application/x-ofx", "application/*") for tok in acc.split(",")):
            self.fail("accept-does-not-admit-ofx", step, acc)
        if h.get("user-agent") != cl["ua"]:
            self.fail("user-agent", step, f"{h.get('user-agent')!r} != {cl['ua']!r}")
        body = rec["data"] or b""
        try:
            story = Q.story_from_bytes(body)
        except Exception as e:
            self.fail(pre + "-body-not-ofx", step, repr(e))
            self.absorb(ci, rec)
            return
        if what == "profile":
            if story["signon"]["userid"] != ANON or story["signon"]["userpass"] != ANON:
                self.fail("profile-hop-not-anonymous", step, str(story["signon"]))
            if cl["uid"].encode() in body or cl["pw"].encode() in body:
                self.fail("profile-hop-carries-credentials", step, url)
            if any(v for k, v in story["requests"].items() if k != "prof") or len(story["requests"]["prof"]) != 1:
                self.fail("profile-hop-carries-other-requests", step, str(story["requests"]))
        else:
            want = Q.story_from_bytes(dry_bytes)
            for k in ("version", "signon", "requests", "msgsets"):
                if story[k] != want[k]:
                    self.fail("service-body-differs-from-dry-run/" + k, step, f"{story[k]} != {want[k]}")
                    break
            if api != "profile" and (story["signon"]["userid"] != cl["uid"] or story["signon"]["userpass"] != cl["pw"]):
                self.fail("service-hop-credentials-wrong", step, str(story["signon"]))
            if url != P:
                self.flags.add("service-url-differs")
        # cookies
        sent = {}
        if "cookie" in h:
            for part in h["cookie"].split(";"):
                if "=" in part:
                    n, v = part.strip().split("=", 1)
                    sent[n] = v
        want_c = dict(self.jar[ci].get(host_of(rec["url"]), {})) if cl["persist"] else {}
        if sent != want_c:
            kind = "cookie-from-another-client" if any(n.startswith("p") and n != f"p{ci}" for n in sent) else "cookie-header-wrong"
            self.fail(kind, step, f"sent {sent}, reference jar {want_c} (host {host_of(rec['url'])})")
        elif sent:
            self.flags.add("cookie-replayed")
        # the response to this hop may set cookies for the next one
        self.absorb(ci, rec)

    def absorb(self, ci, rec):
        if self.clients[ci]["persist"]:
            for n, v in rec.get("served_cookies", []):
                self.jar[ci].setdefault(host_of(rec["url"]), {})[n] = v
        rec["absorbed"] = True

    def after(self, ci, recs, key):
        for rec in recs:
            if not rec.get("absorbed"):
                self.absorb(ci, rec)
        # the cache may have been written by a successful profile reply even when we could not predict the hops
        d = self.tmp / "fiprofiles"
        # which file belongs to this client's own server: several servers may share ORG/FID, so the name the library is seen
        # to use (ORG-FID-<hash of the URL>) is matched exactly; under another naming scheme the model simply does not learn
        # of caches it did not predict, and the server then answers with a full profile instead of "up to date"
        import hashlib

        mine = f"{key[0]}-{key[1]}-{hashlib.sha1(key[2].encode('utf_8')).hexdigest()[:12]}.profrs"
        cached = d.exists() and any(p.name == mine and p.name not in self.foreign_cache for p in d.iterdir())
        if cached and not self.cache.get(key):
            self.cache[key] = True

    def fail(self, key, step, detail):
        self.failed = True
        if STATS is not None:
            STATS.fail(key, list(self.history), f"step {step}: {detail}")


def ofxget_runs_case(case):
    """Two separate ofxget runs (= two client instances, as two invocations of the program are) against a server that sets
    cookies - also persistent ones (Max-Age / Expires): what the first run was given never shows up in the second."""
    from pbt.core import ofxgetrun as G

    root = Path(tempfile.mkdtemp(prefix="verif_c14g_"))
    url = "https://ofx.cookie-bank.com/ofx"
    issued = {}  # value -> run
    state = {"run": 0, "n": 0}
    seen = []

    def responder(rec):
        state["n"] += 1
        hdr = rec["headers"].get("cookie", "")
        for val, run in issued.items():
            if val in hdr and run != state["run"]:
                seen.append(f"run {state['run']} sent {hdr!r}; {val} was set in run {run}")
        headers = [("Content-Type", "application/x-ofx")]
        for name, attrs in (("sid", case["attrs"]), ("tmp", "")):
            val = f"{name}-r{state['run']}-n{state['n']}"
            issued[val] = state["run"]
            headers.append(("Set-Cookie", f"{name}={val}; Path=/" + ("; " + attrs if attrs else "")))
        if b"<PROFRQ>" in (rec["data"] or b""):
            return 200, headers, F.profile_response({"BANKMSGSET": url, "CREDITCARDMSGSET": url, "INVSTMTMSGSET": url}, F.dt_tag(2020 + state["n"]))
        if b"<ACCTINFORQ>" in (rec["data"] or b""):
            return 200, headers, F.acctinfo_response([{"kind": "cc", "acctid": "4111", "status": "ACTIVE", "group": 0}])
        return 200, headers, b"<OFX>fixture reply</OFX>"

    out = []
    try:
        with F.FakeNet(responder) as net:
            for run in (1, 2, 3):
                state["run"] = run
                argv = {"stmt": ["stmt", "cbank", "--url", url, "--user", "joe", "--password", "pw-c14", "-c", "4111", "--version", "203"],
                        "acctinfo": ["acctinfo", "cbank", "--url", url, "--user", "joe", "--password", "pw-c14", "--version", "203"],
                        "prof": ["prof", "cbank", "--url", url, "--version", "203"]}[case["cmds"][(run - 1) % len(case["cmds"])]]
                if case.get("write") and run == 1:
                    argv = argv + ["--write"]
                r = G.run(root, argv, handler=True)
                if r.raised is not None:
                    raise H.HarnessError(f"ofxget run failed: {r.raised!r}")
            if not net.log:
                raise H.HarnessError("no traffic")
        if seen:
            out.append(("cookie-from-an-earlier-ofxget-run-sent", seen[0]))
    finally:
        shutil.rmtree(root, ignore_errors=True)
    return out


def ofxget_dryrun_case(case):
    """ofxget ... --dryrun, every sub-command and flag combination: no traffic whatsoever (how the run ends is not the point)."""
    from pbt.core import ofxgetrun as G

    root = Path(tempfile.mkdtemp(prefix="verif_c14d_"))
    url = "https://ofx.dry-bank.com/ofx"
    out = []
    try:
        def responder(rec):
            if b"<PROFRQ>" in (rec["data"] or b""):
                return 200, [], F.profile_response({"BANKMSGSET": url, "CREDITCARDMSGSET": url, "INVSTMTMSGSET": url}, F.dt_tag(2020))
            if b"<ACCTINFORQ>" in (rec["data"] or b""):
                return 200, [], F.acctinfo_response([{"kind": "cc", "acctid": "4111", "status": "ACTIVE", "group": 0}])
            return 200, [], b"<OFX>fixture reply</OFX>"

        with F.FakeNet(responder) as net:
            argv = [case["cmd"], "drybank", "--url", url, "--version", "203", "--dryrun"] + list(case["extra"])
            G.run(root, argv, handler=True)
            if net.log or net.socket_attempts:
                body = (net.log[0].get("data") or b"") if net.log else b""
                out.append(("ofxget-dry-run-sent-a-request" + ("/with-credentials" if b"pw-c14-dry" in body or b"joe-dry" in body else ""), f"{argv}: {[(r['method'], r['url']) for r in net.log][:3]} sockets={net.socket_attempts[:2]}"))
    finally:
        shutil.rmtree(root, ignore_errors=True)
    return out


_SIGN = ["--user", "joe-dry", "--password", "pw-c14-dry"]
OFXGET_DRY_CASES = [{"kind": "ofxget-dryrun", "cmd": cmd, "extra": extra} for cmd, extra in [
    ("prof", []), ("prof", ["--write"]), ("acctinfo", _SIGN), ("acctinfo", _SIGN + ["--write"]),
    ("stmt", _SIGN + ["-c", "4111"]), ("stmt", _SIGN + ["-C", "1", "--bankid", "123"]), ("stmt", _SIGN + ["--all"]), ("stmt", _SIGN + ["--all", "--skipprofile"]),
    ("stmt", _SIGN + ["--all", "-c", "4111", "--write"]), ("stmtend", _SIGN + ["--all"]), ("stmtend", _SIGN + ["-c", "4111"]), ("stmtend", _SIGN + ["--all", "--skipprofile"]),
    ("tax1099", _SIGN + ["--year", "2019"]), ("stmt", _SIGN + ["-i", "777", "--brokerid", "b.example", "--all"]),
]]


def _ofxget_worker(cases):
    H.setup_path()
    s = H.Stats()
    for case in cases:
        s.case(case, nontrivial=True, labels=["separate ofxget runs against a cookie-setting server" if case["kind"] == "ofxget-runs" else "ofxget --dryrun: " + case["cmd"]])
        for k, d in check_case(case):
            s.fail(k, case, d)
    return s


OFXGET_CASES = [
    {"kind": "ofxget-runs", "cmds": cmds, "attrs": attrs, "write": w}
    for cmds in (["stmt"], ["prof", "stmt"], ["acctinfo", "stmt", "prof"])
    for attrs in ("", "Max-Age=86400", "Expires=Fri, 31 Dec 2100 23:59:59 GMT", "Max-Age=86400; Secure; HttpOnly")
    for w in (False, True)
]


def check_case(case):
    """Replay an operation history (list of steps as recorded by the machine)."""
    global STATS
    H.setup_path()
    if isinstance(case, dict) and case.get("kind") == "ofxget-runs":
        return ofxget_runs_case(case)
    if isinstance(case, dict) and case.get("kind") == "ofxget-dryrun":
        return ofxget_dryrun_case(case)
    saved = STATS
    STATS = H.Stats()
    try:
        m = ClientMachine()
        try:
            for stp in case:
                if stp[0] == "clients":
                    m.make_clients([tuple(s) for s in stp[1]])
                    m.history.pop()  # make_clients appended it again
                    m.history.append(stp)
                elif stp[0] == "call":
                    _, ci, api, mode, s_choice, code1, cp, cs, fail, nreq = stp
                    m.call(ci, api, mode, s_choice, bool(code1), cp, cs, fail, nreq)
                    m.history.pop()
                    m.history.append(stp)
                elif stp[0] == "profile_at":
                    m.profile_at(stp[1], stp[2], stp[3])
        finally:
            m.teardown()
        return [(k, v[2]) for k, v in STATS.failures.items()]
    finally:
        STATS = saved


def _worker(job):
    global STATS
    H.setup_path()
    from hypothesis import seed, settings, HealthCheck, Phase
    from hypothesis.stateful import run_state_machine_as_test

    n, steps, sd = job
    STATS = H.Stats()
    run_state_machine_as_test(
        seed(sd)(ClientMachine),
        settings=settings(max_examples=n, stateful_step_count=steps, database=None, deadline=None, report_multiple_bugs=False, suppress_health_check=list(HealthCheck), phases=[Phase.generate]),
    )
    s = STATS
    STATS = None
    return s


def run(ctx):
    n = ctx.scale(20, 250)
    steps = ctx.scale(8, 14)
    ctx.pmap(_worker, [(n, steps, ctx.sub_seed(i)) for i in range(16)])
    ctx.pmap(_ofxget_worker, [(OFXGET_CASES + OFXGET_DRY_CASES)[i::12] for i in range(12)])
