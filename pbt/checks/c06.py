"""C06 - a composed request says exactly what the caller asked, in every configuration."""
from __future__ import annotations

import datetime as dt
import io
import warnings

from hypothesis import strategies as st

from pbt.core import harness as H
from pbt.core import reftypes as R
from pbt.core import reqmodel as Q

PID = "C06"
LEVEL = "exploration"
RULE = (
    "client configuration (every supported version, pretty, close_elements incl. the refused v2 combination, org / org+fid / "
    "none, clientuid, appid, appver, language, userid, password over printable characters incl. & < > quotes non-ASCII) x "
    "request multiset (0-8 of StmtRq / CcStmtRq / InvStmtRq / StmtEndRq / CcStmtEndRq in any order with duplicates; account "
    "ids incl. markup, all account types, dates with any offset or None, include flags) plus request_accounts / "
    "request_profile / request_tax1099, all as dry runs.  Oracle: the bytes are read by an independent header reader and "
    "strict scanner and compared field by field with a reference model of the request; the library's own parse of the same "
    "bytes must tell the same story; TRNUIDs distinct; v2 without end tags refused.  non-trivial = >=2 kinds and >=3 requests, "
    "or credentials / ids with markup characters, or non-UTC dates; distinct by case hash"
)
ASSUMPTIONS = [
    "values the library randomises (UUIDs, DTCLIENT) enter the oracle only as 'distinct' / 'is a valid date-time'",
    "not asserted: order between different request kinds inside one message set; over-long values (rejected by the models)",
    "excluded by construction (open finding): string values that look like entities (a&amp;b) - the model decodes Python values on assignment",
]

V1 = [102, 103, 151, 160]
V2 = [200, 201, 202, 203, 210, 211, 220]
ACCTTYPES = ["CHECKING", "SAVINGS", "MONEYMRKT", "CREDITLINE", "CD"]
CH = st.characters(categories=("L", "M", "N", "P", "S", "Zs"))


def _lang_codes():
    H.setup_path()
    from ofxtools.models.i18n import LANG_CODES

    return list(LANG_CODES)


def _ok(s):
    if not s or s[0].isspace() or s[-1].isspace():
        return False
    return R.decode_entities(s) == s  # entity-looking literals: excluded (known finding), counted by the caller


def ident(maxlen, pool=("x", "1234", "A&B", "a<b>", 'q"t', "é漢", "it's", "S&P&reg500", "R&D&copy1", "x&sect", "q&lt1", "4111-1111-1111-1111", "55 00", "7-7", "0012")):
    return st.one_of(st.sampled_from([p for p in pool if len(p) <= maxlen]), st.text(CH, min_size=1, max_size=min(maxlen, 12)).filter(_ok))


DTS = st.one_of(
    st.none(),
    st.builds(
        lambda y, mo, d, h, mi, s, ms, off: [y, mo, min(d, R.days_in_month(y, mo)), h, mi, s, ms * 1000, off],
        st.integers(1990, 2100), st.integers(1, 12), st.integers(1, 31), st.integers(0, 23), st.integers(0, 59), st.integers(0, 59), st.integers(0, 999),
        st.one_of(st.just(0), st.integers(-720, 840)),
    ),
)


def mkdt(v):
    if v is None:
        return None
    y, mo, d, h, mi, s, us, off = v
    return dt.datetime(y, mo, d, h, mi, s, us, tzinfo=dt.timezone(dt.timedelta(minutes=off)))


def inst(v):
    return None if v is None else R.py_instant_us(mkdt(v))


ACCTID = st.one_of(ident(22), ident(22), ident(22), st.text("0123456789ABCDEF -", min_size=23, max_size=34).map(str.strip).filter(lambda x: len(x) >= 23 and "  " not in x))


REQ = st.one_of(
    st.builds(lambda a, t, s, e, i: {"k": "stmt", "acctid": a, "accttype": t, "dtstart": s, "dtend": e, "inctran": i}, ACCTID, st.sampled_from(ACCTTYPES), DTS, DTS, st.booleans()),
    st.builds(lambda a, s, e, i: {"k": "ccstmt", "acctid": a, "dtstart": s, "dtend": e, "inctran": i}, ACCTID, DTS, DTS, st.booleans()),
    st.builds(lambda a, s, e, f, i, oo, p, b: {"k": "invstmt", "acctid": a, "dtstart": s, "dtend": e, "dtasof": f, "inctran": i, "incoo": oo, "incpos": p, "incbal": b}, ACCTID, DTS, DTS, DTS, st.booleans(), st.booleans(), st.booleans(), st.booleans()),
    st.builds(lambda a, t, s, e: {"k": "stmtend", "acctid": a, "accttype": t, "dtstart": s, "dtend": e}, ACCTID, st.sampled_from(ACCTTYPES), DTS, DTS),
    st.builds(lambda a, s, e: {"k": "ccstmtend", "acctid": a, "dtstart": s, "dtend": e}, ACCTID, DTS, DTS),
)


@st.composite
def cases(draw):
    version = draw(st.sampled_from(V1 + V2))
    close = draw(st.booleans()) if version < 200 else draw(st.sampled_from([True, True, True, False]))
    cfg = {
        "version": version, "pretty": draw(st.booleans()), "close": close,
        "org": draw(st.one_of(st.none(), ident(32))), "fid": None,
        "clientuid": draw(st.one_of(st.none(), ident(36))),
        "appid": draw(st.one_of(st.none(), ident(5, pool=("QWIN", "QBW", "A&B")))), "appver": draw(st.one_of(st.none(), ident(4, pool=("2700", "1", "<2>")))),
        "language": draw(st.one_of(st.none(), st.sampled_from(_lang_codes()))),
        "userid": draw(ident(32)), "password": draw(ident(32)),
        "bankid": draw(ident(9)), "brokerid": draw(ident(22)),
    }
    if cfg["org"] is not None and draw(st.booleans()):
        cfg["fid"] = draw(ident(32))
    api = draw(st.sampled_from(["statements", "statements", "statements", "accounts", "profile", "tax1099"]))
    c = {"cfg": cfg, "api": api}
    if api == "statements":
        c["requests"] = draw(st.lists(REQ, min_size=0, max_size=8))
        if c["requests"] and draw(st.integers(0, 2)) == 0:
            # the same request asked for twice (a multiset, not a set): an exact copy inserted anywhere
            src = draw(st.sampled_from(c["requests"]))
            cp = dict(src)
            if "accttype" in cp and draw(st.booleans()):
                # the same account number as another kind of account (a checking and a savings account may share a number)
                cp["accttype"] = draw(st.sampled_from([t for t in ACCTTYPES if t != cp["accttype"]]))
                if draw(st.booleans()):
                    cp["k"] = "stmtend" if cp["k"] == "stmt" else "stmt"
                    cp = {k: v for k, v in cp.items() if k != "inctran"} if cp["k"] == "stmtend" else dict(cp, inctran=True)
            c["requests"].insert(draw(st.integers(0, len(c["requests"]))), cp)
            c["dup"] = True
    elif api == "accounts":
        c["dtacctup"] = draw(DTS.filter(lambda x: x is not None))
    elif api == "tax1099":
        c["years"] = draw(st.lists(st.integers(1990, 2030).map(str), min_size=0, max_size=3))
        c["acctnum"] = draw(st.one_of(st.none(), ident(32)))
        c["recid"] = draw(st.one_of(st.none(), ident(32)))
    return c


def make_client(cfg):
    from ofxtools.Client import OFXClient

    return OFXClient(
        "https://ofx.example.invalid/ofx", userid=cfg["userid"], clientuid=cfg["clientuid"], org=cfg["org"], fid=cfg["fid"], version=cfg["version"],
        appid=cfg["appid"], appver=cfg["appver"], language=cfg["language"], prettyprint=cfg["pretty"], close_elements=cfg["close"],
        bankid=cfg["bankid"], brokerid=cfg["brokerid"],
    )


def compose(case):
    from ofxtools.Client import StmtRq, CcStmtRq, InvStmtRq, StmtEndRq, CcStmtEndRq

    client = make_client(case["cfg"])
    pw = case["cfg"]["password"]
    api = case["api"]
    if api == "statements":
        rqs = []
        for r in case["requests"]:
            k = r["k"]
            if k == "stmt":
                rqs.append(StmtRq(acctid=r["acctid"], accttype=r["accttype"], dtstart=mkdt(r["dtstart"]), dtend=mkdt(r["dtend"]), inctran=r["inctran"]))
            elif k == "ccstmt":
                rqs.append(CcStmtRq(acctid=r["acctid"], dtstart=mkdt(r["dtstart"]), dtend=mkdt(r["dtend"]), inctran=r["inctran"]))
            elif k == "invstmt":
                rqs.append(InvStmtRq(acctid=r["acctid"], dtstart=mkdt(r["dtstart"]), dtend=mkdt(r["dtend"]), dtasof=mkdt(r["dtasof"]), inctran=r["inctran"], incoo=r["incoo"], incpos=r["incpos"], incbal=r["incbal"]))
            elif k == "stmtend":
                rqs.append(StmtEndRq(acctid=r["acctid"], accttype=r["accttype"], dtstart=mkdt(r["dtstart"]), dtend=mkdt(r["dtend"])))
            else:
                rqs.append(CcStmtEndRq(acctid=r["acctid"], dtstart=mkdt(r["dtstart"]), dtend=mkdt(r["dtend"])))
        return client.request_statements(pw, *rqs, dryrun=True).read()
    if api == "accounts":
        return client.request_accounts(pw, mkdt(case["dtacctup"]), dryrun=True).read()
    if api == "profile":
        return client.request_profile(dryrun=True).read()
    return client.request_tax1099(pw, *case["years"], acctnum=case["acctnum"], recid=case["recid"], dryrun=True).read()


def expected_requests(case):
    cfg = case["cfg"]
    e = {k: [] for k in ("stmt", "stmtend", "ccstmt", "ccstmtend", "invstmt", "acctinfo", "prof", "tax1099")}
    api = case["api"]
    if api == "statements":
        for r in case["requests"]:
            k = r["k"]
            if k == "stmt":
                e["stmt"].append({"bankid": cfg["bankid"], "acctid": r["acctid"], "accttype": r["accttype"], "inctran": {"dtstart": inst(r["dtstart"]), "dtend": inst(r["dtend"]), "include": r["inctran"]}})
            elif k == "stmtend":
                e["stmtend"].append({"bankid": cfg["bankid"], "acctid": r["acctid"], "accttype": r["accttype"], "dtstart": inst(r["dtstart"]), "dtend": inst(r["dtend"])})
            elif k == "ccstmt":
                e["ccstmt"].append({"acctid": r["acctid"], "inctran": {"dtstart": inst(r["dtstart"]), "dtend": inst(r["dtend"]), "include": r["inctran"]}})
            elif k == "ccstmtend":
                e["ccstmtend"].append({"acctid": r["acctid"], "dtstart": inst(r["dtstart"]), "dtend": inst(r["dtend"])})
            else:
                e["invstmt"].append({"brokerid": cfg["brokerid"], "acctid": r["acctid"],
                                     "inctran": {"dtstart": inst(r["dtstart"]), "dtend": inst(r["dtend"]), "include": True} if r["inctran"] else "absent-or-N",
                                     "incoo": r["incoo"], "incbal": r["incbal"], "incpos": {"dtasof": inst(r["dtasof"]), "include": r["incpos"]}})
    elif api == "accounts":
        e["acctinfo"].append({"dtacctup": inst(case["dtacctup"])})
    elif api == "profile":
        e["prof"].append({"clientrouting": "NONE", "dtprofup": "any"})
    else:
        e["tax1099"].append({"acctnum": case["acctnum"], "recid": case["recid"], "years": list(case["years"])})
    return e


MSGSET_OF = {"stmt": "BANKMSGSRQV1", "stmtend": "BANKMSGSRQV1", "ccstmt": "CREDITCARDMSGSRQV1", "ccstmtend": "CREDITCARDMSGSRQV1", "invstmt": "INVSTMTMSGSRQV1", "acctinfo": "SIGNUPMSGSRQV1", "prof": "PROFMSGSRQV1", "tax1099": "TAX1099MSGSRQV1"}


def _req_eq(kind, exp, got):
    if kind == "invstmt":
        e = dict(exp)
        g = dict(got)
        if e["inctran"] == "absent-or-N":
            if g["inctran"] is not None and g["inctran"]["include"] is not False:
                return False
            e.pop("inctran"); g.pop("inctran")
        return e == g
    if kind == "prof":
        return exp["clientrouting"] == got["clientrouting"] and got["dtprofup"] is not None
    return exp == got


def check_case(case):
    H.setup_path()
    from ofxtools.Parser import OFXTree

    cfg = case["cfg"]
    out = []
    warnings.simplefilter("ignore")
    if cfg["version"] >= 200 and not cfg["close"]:
        try:
            compose(case)
            out.append(("v2-without-end-tags-not-refused", f"version {cfg['version']} close_elements=False composed a request"))
        except Exception:
            pass
        # the same combination reached through the per-call overrides of a correctly configured client
        from ofxtools.models.ofx import OFX

        for base_ver, base_close in ((102, False), (cfg["version"], True)):
            try:
                cl = make_client(dict(cfg, version=base_ver, close=base_close))
                ofx = OFX(signonmsgsrqv1=cl.signon(cfg["password"]))
            except Exception as e:
                out.append(("valid-client-refused", repr(e)))
                continue
            for what, fn in (
                ("serialize", lambda: cl.serialize(ofx, version=cfg["version"], close_elements=False)),
                ("download-dryrun", lambda: cl.download(ofx, version=cfg["version"], close_elements=False, dryrun=True)),
                ("request_profile-dryrun", lambda: cl.request_profile(version=cfg["version"], close_elements=False, dryrun=True)),
            ):
                try:
                    r = fn()
                    data = r if isinstance(r, bytes) else r.read()
                    out.append((f"v2-without-end-tags-not-refused/{what}", f"version {cfg['version']}: composed {data[:120]!r}"))
                except Exception:
                    pass
        return out
    try:
        data = compose(case)
    except Exception as e:
        return [(f"valid-request-refused/{case['api']}", f"{e!r}")]
    form = "unclosed" if not cfg["close"] else "closed"
    try:
        story = Q.story_from_bytes(data)
    except Exception as e:
        return [(f"request-not-well-formed/{form}", f"{e!r}: {data[-300:]!r}")]
    # header
    if story["header_kind"] != (1 if cfg["version"] < 200 else 2) or story["version"] != cfg["version"]:
        out.append(("header-version-wrong", f"configured {cfg['version']}: header kind {story['header_kind']} version {story['version']}"))
    # sign-on
    s = story["signon"]
    anonymous = case["api"] == "profile"
    want = {
        "userid": "anonymous00000000000000000000000" if anonymous else cfg["userid"],
        "userpass": "anonymous00000000000000000000000" if anonymous else cfg["password"],
        "language": cfg["language"] or "ENG", "appid": cfg["appid"] or "QWIN", "appver": cfg["appver"] or "2700",
        "clientuid": cfg["clientuid"] if cfg["version"] >= 103 else None,
        "org": cfg["org"], "fid": cfg["fid"] if cfg["org"] else None, "has_fi": bool(cfg["org"]), "dtclient_valid": True,
    }
    for k, v in want.items():
        if s[k] != v:
            out.append((f"signon-{k}-wrong/{form}", f"asked {v!r}, request says {s[k]!r}"))
    # requests
    exp = expected_requests(case)
    for kind, lst in exp.items():
        got = story["requests"][kind]
        if len(got) != len(lst):
            out.append((f"wrapper-count-wrong/{kind}", f"asked {len(lst)}, request has {len(got)}"))
            continue
        for i, (e, g) in enumerate(zip(lst, got)):
            if not _req_eq(kind, e, g):
                diff = [k for k in e if e.get(k) != g.get(k)] if isinstance(e, dict) else []
                out.append((f"wrapper-content-wrong/{kind}/{'+'.join(diff)}/{form}", f"#{i}: asked {e}, request says {g}"))
                break
    if story["other_wrappers"]:
        out.append(("unexpected-wrappers", str(story["other_wrappers"])))
    want_sets = ["SIGNONMSGSRQV1"] + sorted({MSGSET_OF[k] for k, lst in exp.items() if lst})
    if sorted(story["msgsets"]) != sorted(want_sets):
        out.append(("message-sets-wrong", f"expected {want_sets}, request has {story['msgsets']}"))
    tu = story["trnuids"]
    if len(set(tu)) != len(tu) or any(not t for t in tu):
        out.append(("trnuids-not-distinct", str(tu)))
    if out and _entityish(case):
        # root cause: the model decodes entity-looking Python strings on assignment (known finding)
        return [("entity-looking-value-decoded-on-assignment", out[0][1])]
    # differential: the library's own reading of the same bytes
    try:
        t = OFXTree()
        t.parse(io.BytesIO(data))
        model_story = Q.story_from_model(t.header, t.convert())
        for k in ("version", "signon", "requests", "trnuids"):
            a, b = story[k], model_story[k]
            if a != b:
                out.append((f"library-reads-own-request-differently/{k}/{form}", f"scanner: {H.canon(a)[:300]} library: {H.canon(b)[:300]}"))
                break
    except Exception as e:
        out.append((f"library-rejects-own-request/{form}", f"{e!r}"))
    return out


def _entityish(case):
    vals = [v for v in case["cfg"].values() if isinstance(v, str)] + [r["acctid"] for r in case.get("requests", [])]
    vals += [case.get("acctnum") or "", case.get("recid") or ""]
    return any(R.decode_entities(v) != v for v in vals)


def _markup(s):
    return s is not None and any(c in s for c in "&<>")


def _worker(job):
    H.setup_path()
    n, seed = job
    s = H.Stats()

    def body(c):
        cfg = c["cfg"]
        rq = c.get("requests", [])
        kinds = {r["k"] for r in rq}
        nonutc = any(v and v[-1] != 0 for r in rq for k, v in r.items() if k.startswith("dt") and isinstance(v, list))
        markup = any(_markup(cfg[k]) for k in ("userid", "password", "org", "fid", "clientuid", "bankid", "brokerid")) or any(_markup(r["acctid"]) for r in rq)
        labs = ["api:" + c["api"], "version:%d" % cfg["version"], "closed" if cfg["close"] else "unclosed"]
        if cfg["pretty"]:
            labs.append("pretty")
        if markup:
            labs.append("markup in credentials/ids")
        if nonutc:
            labs.append("non-UTC dates")
        if len(kinds) >= 2 and len(rq) >= 3:
            labs.append(">=2 kinds and >=3 requests")
        if cfg["version"] >= 200 and not cfg["close"]:
            labs.append("refused combination v2 + unclosed")
        if c.get("dup"):
            labs.append("same request asked twice")
        s.case(c, nontrivial=(len(kinds) >= 2 and len(rq) >= 3) or markup or nonutc, labels=labs)
        for k, d in check_case(c):
            s.fail(k, c, d)

    H.hyp_run(cases(), body, n, seed, stats=s)
    return s


def run(ctx):
    n = ctx.scale(400, 4000)
    ctx.pmap(_worker, [(n, ctx.sub_seed(i)) for i in range(16)])
