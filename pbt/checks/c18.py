"""C18 - ofxget settings obey CLI > user file > FI db > OFX Home > defaults, and persist."""
from __future__ import annotations

import configparser
import re
import shutil
import tempfile
import urllib.parse
import warnings
from pathlib import Path

from hypothesis import strategies as st
from hypothesis.stateful import RuleBasedStateMachine, rule

from pbt.core import harness as H
from pbt.core import fakenet as F
from pbt.core import ofxgetrun as G

PID = "C18"
LEVEL = "exploration"
RULE = (
    "Hypothesis rule-based machine over one configuration directory.  Per run: server nickname (real sections of the bundled "
    "fi.cfg chosen to cover its option kinds, or fresh names) and for every option an independent choice of which sources set "
    "it: CLI argv, user section (typed text forms true/false/yes/no/1/0, ints, comma lists with arbitrary blanks), FI database "
    "(as shipped), OFX Home (fake lookup server giving url/org/fid/brokerid, each possibly empty), built-in default.  Oracle (1) "
    "precedence: merge_config()[opt] equals the highest-ranking source that sets it, computed by a reference model from "
    "independently parsed sources; (2) persistence: after --write (a real non-dry request against a fake server) a run with the "
    "same nickname and no CLI options has the same effective value for every persistable option; (3) the file never contains "
    "the password; (4) --dryrun --write leaves the file byte-identical / absent; (5) [DEFAULT] clientuid is created once, is a "
    "UUID, survives later writes and is the CLIENTUID of runs that set none.  non-trivial = run where >=2 sources set the same "
    "option with different values, or a write whose value differs from the default; distinct by hash of the run history"
)
ASSUMPTIONS = [
    "None / '' / [] are 'unset' in every source; False is a value",
    "not asserted: options in the user [DEFAULT] section other than clientuid; account ids containing , ' [ ]; unclosedelements with version >= 200; empty values in the user file",
    "FI-database values are taken from the bundled fi.cfg as shipped (read independently)",
]

PASSWORD = "S3cr3t-Pa55w0rd-XYZ"
STR_OPTS = ["url", "ofxhome", "org", "fid", "brokerid", "bankid", "appid", "appver", "language", "useragent", "user", "clientuid"]
BOOL_OPTS = ["pretty", "unclosedelements", "nonewfileuid", "skipprofile"]
INT_OPTS = ["version"]
LIST_OPTS = ["checking", "savings", "moneymrkt", "creditline", "creditcard", "investment"]
PERSISTABLE = STR_OPTS + BOOL_OPTS + INT_OPTS + LIST_OPTS
CLI_FLAG = {"checking": "-C", "savings": "-S", "moneymrkt": "-M", "creditline": "-L", "creditcard": "-c", "investment": "-i", "user": "--user"}
OFXHOME_OPTS = ("url", "org", "fid", "brokerid")
NULLS = (None, "", [])
STATS = None

URLCH = "abcdefghijklmnopqrstuvwxyz0123456789-._~%/?=&:+"
_AL = "ABCDEFGHIJKLMNOPQRSTUVWXYZabcdefghijklmnopqrstuvwxyz0123456789"
# first character alphanumeric: argparse takes a value starting with '-' for an option
ID = st.builds(lambda a, b: a + b, st.sampled_from(_AL), st.text(_AL + "-_.", min_size=0, max_size=7))
_ACCT_PLAIN = st.builds(lambda a, b: a + b, st.sampled_from(_AL), st.text(_AL + "-", min_size=0, max_size=9))
# card- and IBAN-style grouping: an account id may contain single blanks
ACCT = st.one_of(_ACCT_PLAIN, _ACCT_PLAIN, _ACCT_PLAIN, st.sampled_from(["3782 822463 10005", "DE89 3704 0044 0532", "12 34", "A B"]))


NEAR_MISS_OPTS = ("org", "fid", "brokerid", "appid", "useragent", "user")


def _lib_defaults():
    from ofxtools.scripts import ofxget as _o

    return {o: v for o, v in _o.DEFAULTS.items() if isinstance(v, str) and v}


def url_st():
    return st.builds(lambda h, p: f"https://{h}.example.com/{p}", st.text("abcdefghijklmnopqrstuvwxyz", min_size=1, max_size=6), st.one_of(st.sampled_from(["ofx", "cgi/ofx?x=1&y=2", "a%20b", "q?u=%2F", "100%", "ofx?app=ofx&region=us&copy=1", "q?a=1&lt=2&amp=3&timestamp=4", "o?x=&#38;y"]), st.text(URLCH, min_size=0, max_size=10)))


def value_st(opt):
    if opt == "url":
        return url_st()
    if opt == "ofxhome":
        return st.sampled_from(["101", "202", "303"])
    if opt == "version":
        return st.sampled_from([102, 103, 151, 160, 200, 201, 202, 203, 210, 211, 220])
    if opt in BOOL_OPTS:
        return st.booleans()
    if opt in LIST_OPTS:
        return st.lists(ACCT, min_size=1, max_size=6)
    if opt == "language":
        return st.sampled_from(["ENG", "FRA", "SPA", "JPN", "DAN"])
    if opt == "appid":
        return st.sampled_from(["QWIN", "QBW", "Money", "PROSP"])
    if opt == "appver":
        return st.sampled_from(["2700", "1900", "0100", "9"])
    if opt == "clientuid":
        return st.uuids().map(lambda u: str(u).upper())
    if opt == "bankid":
        return st.text("0123456789", min_size=1, max_size=9)
    return ID


def text_form(opt, value, k):
    """Typed text form for the user file (k selects among equivalent spellings)."""
    if opt in BOOL_OPTS:
        return (["true", "yes", "1", "on", "True"] if value else ["false", "no", "0", "off", "False"])[k % 5]
    if opt in LIST_OPTS:
        sep = [", ", ",", " , ", ",  "][k % 4]
        return sep.join(value)
    return str(value)


def fidb_nicks():
    """Real fi.cfg sections chosen so that every option kind occurring in the database is represented."""
    db = G.fidb()
    chosen, seen = [], set()
    for nick in sorted(db):
        opts = frozenset(db[nick]) - {"url", "org", "fid"}
        for o in sorted(opts):
            if o not in seen:
                seen.add(o)
                if nick not in chosen:
                    chosen.append(nick)
    for nick in sorted(db):
        if len(chosen) >= 14:
            break
        if nick not in chosen and "url" in db[nick]:
            chosen.append(nick)
    return chosen


def ofxhome_xml(id_, rec):
    def el(tag):
        v = rec.get(tag)
        return f"<{tag}>{v}</{tag}>" if v else f"<{tag}></{tag}>"

    return (
        f'<institution id="{id_}"><name>Fixture {id_}</name>{el("fid")}{el("org")}{el("url")}{el("brokerid")}'
        "<ofxfail>0</ofxfail><sslfail>0</sslfail><lastofxvalidation>2020-01-01 00:00:00</lastofxvalidation>"
        '<lastsslvalidation>2020-01-01 00:00:00</lastsslvalidation><profile finame="x" bankmsgset="true"/></institution>'
    ).replace("&", "&amp;").encode()


class ConfigMachine(RuleBasedStateMachine):
    def __init__(self):
        super().__init__()
        warnings.simplefilter("ignore")
        self.root = Path(tempfile.mkdtemp(prefix="verif_c18_"))
        self.net = F.FakeNet(self.respond)
        self.net.__enter__()
        self.ofxhome = {}
        self.accts = []
        self.history = []
        self.flags = set()
        self.default_clientuid = None

    def teardown(self):
        self.net.__exit__(None, None, None)
        shutil.rmtree(self.root, ignore_errors=True)
        # leave the module state pointing at the harness-wide empty directories again
        if STATS is not None:
            nt = bool(self.flags & {"sources-disagree", "write-differs-from-default"})
            STATS.case(self.history, nontrivial=nt and bool(self.history), labels=sorted(self.flags) + ["runs:%d" % min(len(self.history), 6)])

    def respond(self, rec):
        u = urllib.parse.urlsplit(rec["url"])
        if u.hostname == "www.ofxhome.com":
            q = urllib.parse.parse_qs(u.query)
            id_ = q.get("lookup", [""])[0]
            self.flags.add("ofxhome consulted")
            return 200, [], ofxhome_xml(id_, self.ofxhome.get(id_, {}))
        if b"<ACCTINFORQ>" in (rec["data"] or b""):
            return 200, [], F.acctinfo_response(self.accts)
        if b"<PROFRQ>" in (rec["data"] or b""):
            return 200, [], F.profile_response({"BANKMSGSET": rec["url"], "CREDITCARDMSGSET": rec["url"], "INVSTMTMSGSET": rec["url"]}, F.dt_tag(2020), code=0)
        return 200, [], b"OFXHEADER:100\r\n\r\n<OFX>fixture</OFX>"

    def check_requests(self, argv, r, recs):
        """"In effect" means in the request: every OFX request of the run carries the effective settings (the merged
        settings are only the library's own account of them)."""
        from pbt.core import reqmodel as Q

        eff = r.effective
        for rec in recs:
            if urllib.parse.urlsplit(rec["url"]).hostname == "www.ofxhome.com" or not rec.get("data"):
                continue
            try:
                story = Q.story_from_bytes(rec["data"])
            except Exception as e:
                self.fail("request-unreadable", f"{argv}: {e!r}")
                return
            so = story["signon"]
            want = {
                "appid": eff["appid"] if eff["appid"] not in NULLS else "QWIN",
                "appver": str(eff["appver"]) if eff["appver"] not in NULLS else "2700",
                "language": eff["language"] if eff["language"] not in NULLS else "ENG",
                "org": eff["org"] if eff["org"] not in NULLS else None,
                "fid": eff["fid"] if eff["fid"] not in NULLS else None,
            }
            if want["org"] is None:
                want.pop("fid")  # <FI> needs an ORG; what a lone FID does is not the point here
            for k, w in want.items():
                if so.get(k) != w and "clientuid" != k:
                    self.fail(f"effective-setting-not-used-in-request/{k}", f"{argv}: effective {k}={eff[k]!r}, the request to {rec['url']} has {so.get(k)!r}")
                    return
            if story["version"] != int(eff["version"]):
                self.fail("effective-setting-not-used-in-request/version", f"{argv}: effective version={eff['version']!r}, request header says {story['version']}")
                return
            if eff["url"] not in NULLS and rec["url"] != eff["url"]:
                # the fake profile advertises the URL it was asked at, so every hop goes to the effective URL
                self.fail("effective-setting-not-used-in-request/url", f"{argv}: effective url={eff['url']!r}, request sent to {rec['url']!r}")
                return
            if eff["clientuid"] not in NULLS and int(eff["version"]) >= 103 and so.get("clientuid") != eff["clientuid"]:
                self.fail("effective-setting-not-used-in-request/clientuid", f"{argv}: effective clientuid={eff['clientuid']!r}, request has {so.get('clientuid')!r}")
                return
            if not story["requests"]["prof"] and eff["user"] not in NULLS and so.get("userid") != eff["user"]:
                self.fail("effective-setting-not-used-in-request/user", f"{argv}: effective user={eff['user']!r}, request signs on as {so.get('userid')!r}")
                return
        self.flags.add("requests of the run compared with the effective settings")

    def fail(self, key, detail):
        if STATS is not None:
            STATS.fail(key, list(self.history), f"run {self.history[-1]}: {detail}"[:1500])

    # -- the reference model of the sources ------------------------------------------
    def sources(self, nick, cli):
        mod_defaults = None
        defaults_sec, secs = G.read_user_file(self.root)
        user_raw = dict(secs.get(nick, {}))
        fidb_raw = dict(G.fidb().get(nick, {}))
        known_section = nick in secs or nick in G.fidb()
        return user_raw, fidb_raw, defaults_sec, known_section

    def expected(self, ofxget, nick, cli):
        user_raw, fidb_raw, defaults_sec, known = self.sources(nick, cli)
        types = dict(ofxget.CONFIGURABLE)
        user = {o: G.typed(types[o], v) for o, v in user_raw.items() if o in types}
        fidb = {o: G.typed(types[o], v) for o, v in fidb_raw.items() if o in types}
        if known and "clientuid" in defaults_sec and "clientuid" not in user:
            # the [DEFAULT] clientuid of the user file applies to every known section; it ranks as user configuration
            user["clientuid"] = defaults_sec["clientuid"]

        def first(o, extra=None):
            for src in (cli, user, fidb, extra or {}):
                if o in src and src[o] not in NULLS:
                    return src[o]
            return ofxget.DEFAULTS[o]

        url_before = first("url")
        consult = ("ofxhome" in cli) or ("ofxhome" in user) or ("ofxhome" in fidb) or (url_before in NULLS)
        oh = {}
        if consult:
            id_ = first("ofxhome")
            if id_ not in NULLS:
                rec = self.ofxhome.get(str(id_), {})
                oh = {o: rec.get(o) for o in OFXHOME_OPTS}
        exp = {o: first(o, oh) for o in PERSISTABLE}
        # an option a source mentions with an *empty* value while a lower-ranking source has a real one: the
        # statement does not say whether "empty" sets or unsets (fi.cfg uses 'clientuid =' for some servers)
        self.ambiguous = set()
        raw_sources = (cli, user_raw, fidb_raw, oh)
        for o in PERSISTABLE:
            seen_empty = False
            for src in raw_sources:
                if o in src and src[o] in (None, "", []):
                    seen_empty = True
                elif o in src and seen_empty:
                    self.ambiguous.add(o)
            if seen_empty and o == "clientuid" and "clientuid" in defaults_sec:
                self.ambiguous.add(o)
        disagree = False
        for o in PERSISTABLE:
            vals = [src[o] for src in (cli, user, fidb, oh) if o in src and src[o] not in NULLS]
            if len(vals) >= 2 and any(v != vals[0] for v in vals[1:]):
                disagree = True
        return exp, disagree

    @rule(
        nick_i=st.integers(0, 40), fresh=st.booleans(),
        cli=st.dictionaries(st.sampled_from(PERSISTABLE), st.integers(0, 10**6), max_size=6),
        user=st.dictionaries(st.sampled_from(PERSISTABLE), st.tuples(st.integers(0, 10**6), st.integers(0, 20)), max_size=6),
        oh=st.dictionaries(st.sampled_from(["101", "202", "303"]), st.lists(st.sampled_from(OFXHOME_OPTS), max_size=4), max_size=3),
        mode=st.sampled_from(["merge", "merge", "write", "write", "dry-write", "acctinfo-write", "prof-dry-write", "acctinfo-dry-write", "prof-write"]), data=st.data(),
    )
    def run(self, nick_i, fresh, cli, user, oh, mode, data):
        nicks = fidb_nicks()
        nick = ["mybank", "zz_test"][nick_i % 2] if fresh else nicks[nick_i % len(nicks)]
        # concrete values
        cli_vals = {o: data.draw(value_st(o), label=f"cli {o}") for o in sorted(cli)}
        for o in list(cli_vals):
            if o in BOOL_OPTS:
                cli_vals[o] = True  # the command line can only switch flags on
        # near-miss regime: a command-line value that differs from what a lower-ranking source (FI database, library
        # default) holds for this server only in letter case is still another value, and the command line wins
        lower = dict(_lib_defaults())
        lower.update({o: v for o, v in G.fidb().get(nick, {}).items() if v})
        for o in sorted(cli_vals):
            base = lower.get(o)
            if o in NEAR_MISS_OPTS and isinstance(base, str) and base.swapcase() != base and not base.startswith("-"):
                if data.draw(st.integers(0, 2), label=f"near-miss {o}") == 0:
                    cli_vals[o] = data.draw(st.sampled_from([base.swapcase(), base.upper(), base.lower()]).filter(lambda v, b=base: v != b), label=f"cli near-miss {o}")
                    self.flags.add("cli-value-case-variant-of-lower-source")
        user_vals = {o: (data.draw(value_st(o), label=f"user {o}"), k) for o, (_, k) in sorted(user.items())}
        for id_, opts in sorted(oh.items()):
            self.ofxhome[id_] = {o: data.draw(value_st(o), label=f"ofxhome {id_} {o}") for o in opts}
        if mode != "merge":
            # a real request follows: keep the combination one the client accepts
            cli_vals.pop("unclosedelements", None)
            user_vals.pop("unclosedelements", None)
        step = ["run", nick, mode, {o: v for o, v in cli_vals.items()}, {o: text_form(o, v, k) for o, (v, k) in user_vals.items()}, {i: dict(r) for i, r in self.ofxhome.items()}]
        if mode == "acctinfo-write":
            accts = []
            for i in range(data.draw(st.integers(0, 5), label="n accounts")):
                kind = data.draw(st.sampled_from(["bank", "bank", "cc", "inv"]), label="kind")
                a = {"kind": kind, "acctid": data.draw(ACCT, label="acctid"), "status": data.draw(st.sampled_from(["ACTIVE", "ACTIVE", "AVAIL", "PEND"]), label="status"), "group": i}
                if kind == "bank":
                    a.update(bankid="987654321", accttype=data.draw(st.sampled_from(["CHECKING", "SAVINGS", "MONEYMRKT", "CREDITLINE"]), label="accttype"))
                if kind == "inv":
                    a["brokerid"] = "disc.broker.com"
                accts.append(a)
            step.append(accts)
        self.history.append(step)
        self.execute(step)

    def execute(self, step):
        _, nick, mode, cli_vals, user_texts, ofxhome = step[:6]
        self.accts = step[6] if len(step) > 6 else []
        self.ofxhome = {i: dict(r) for i, r in ofxhome.items()}
        # -- edit the user file (independent writer)
        if user_texts:
            p = G.user_cfg_path(self.root)
            cp = configparser.RawConfigParser()
            if p.exists():
                cp.read(p)
            if not cp.has_section(nick):
                cp.add_section(nick)
            for o, t in user_texts.items():
                cp.set(nick, o, t)
            p.parent.mkdir(parents=True, exist_ok=True)
            with open(p, "w") as f:
                cp.write(f)
        sub = {"acctinfo-write": "acctinfo", "acctinfo-dry-write": "acctinfo", "prof-dry-write": "prof", "prof-write": "prof"}.get(mode, "stmt")
        argv = [sub, nick]
        if sub != "stmt":
            # the acctinfo / prof sub-commands have no statement options; acctinfo needs a user name
            cli_vals = {o: v for o, v in cli_vals.items() if o not in LIST_OPTS and o not in ("bankid", "brokerid")}
            if sub == "acctinfo":
                cli_vals.setdefault("user", "joe")
        if mode in ("prof-dry-write", "acctinfo-dry-write"):
            # "stores nothing on a dry run" holds for every sub-command that can --write
            self.flags.add("dry run of " + sub)
            mode = "dry-write"
        for o, v in sorted(cli_vals.items()):
            if o in BOOL_OPTS:
                argv.append("--" + o)
            elif o in LIST_OPTS:
                for a in v:
                    argv += [CLI_FLAG[o], a]
            else:
                argv += [CLI_FLAG.get(o, "--" + o), str(v)]
        if mode == "prof-write":
            # the profile request signs on anonymously, but --write stores the settings of the run like any other sub-command
            argv += ["--write"]
            self.flags.add("prof --write")
            mode = "write"
        elif mode in ("write", "acctinfo-write"):
            argv += ["--write", "--password", PASSWORD]
        elif mode == "dry-write":
            argv += ["--write", "--dryrun"]
        ofxget = G.load(self.root)
        exp, disagree = self.expected(ofxget, nick, cli_vals)
        if mode == "write" and sub == "stmt":
            # implicit preconditions of a real statement request: bank accounts need a bank id, investment accounts a broker id
            changed = False
            if any(exp[o] not in NULLS for o in ("checking", "savings", "moneymrkt", "creditline")) and exp["bankid"] in NULLS:
                cli_vals = dict(cli_vals, bankid="123456789")
                argv[2:2] = ["--bankid", "123456789"]
                changed = True
            if exp["investment"] not in NULLS and exp["brokerid"] in NULLS:
                cli_vals = dict(cli_vals, brokerid="broker.example")
                argv[2:2] = ["--brokerid", "broker.example"]
                changed = True
            if changed:
                exp, disagree = self.expected(ofxget, nick, cli_vals)
        if disagree:
            self.flags.add("sources-disagree")
        if mode != "merge" and exp["unclosedelements"] is True and int(exp["version"]) >= 200:
            # not asserted: the client refuses to omit end tags for OFX 2.x - no request, hence no write, can follow
            mode = "merge"
            argv = [a for a in argv if a not in ("--write", "--dryrun")]
            if "--password" in argv:
                i = argv.index("--password")
                del argv[i : i + 2]
            self.flags.add("skipped: unclosedelements with version>=200")
        have_url = exp["url"] not in NULLS
        file_before = G.user_cfg_path(self.root).read_bytes() if G.user_cfg_path(self.root).exists() else None
        # where the nickname stands on the command line is the user's choice: first, last, or right after an account option
        where = H.chash([nick, mode, sorted(cli_vals)])[-1]
        if argv[1] == nick and where in "01234567":
            rest = argv[2:]
            if where in "0123" or not any(a in CLI_FLAG.values() for a in rest):
                argv = [argv[0]] + rest + [nick]
                self.flags.add("nickname last on the command line")
            else:
                i = next(i for i, a in enumerate(rest) if a in CLI_FLAG.values() and a != "--user")  if any(a in CLI_FLAG.values() and a != "--user" for a in rest) else None
                if i is not None:
                    argv = [argv[0]] + rest[: i + 2] + [nick] + rest[i + 2 :]
                    self.flags.add("nickname right after an account option")
        net_before = len(self.net.log)
        r = G.run(self.root, argv, handler=(mode != "merge") and have_url)
        if r.merged is not None and mode != "merge" and have_url and r.raised is None:
            self.check_requests(argv, r, self.net.log[net_before:])
        if r.merged is None:
            if have_url or mode == "dry-write":
                self.fail("merge-raises", f"{argv}: {r.raised!r} exited={r.exited}")
            return
        # (1) precedence
        for o in PERSISTABLE:
            got = r.effective[o]
            want = exp[o]
            if o in self.ambiguous:
                continue
            if (got in NULLS) and (want in NULLS):
                continue
            if got != want:
                self.fail(f"precedence/{o}", f"{argv}: effective {o}={got!r}, highest-ranking source says {want!r}")
                break
        file_after = G.user_cfg_path(self.root).read_bytes() if G.user_cfg_path(self.root).exists() else None
        if mode == "merge":
            if file_after != file_before:
                self.fail("file-changed-without-write", str(argv))
            return
        if mode == "dry-write":
            if file_after != file_before:
                self.fail("dry-run-write-changed-file", str(argv))
            return
        # -- write run
        if not have_url:
            return
        if r.raised is not None:
            key = "write-run-raises"
            if "%" in str(exp["url"]):
                key = "write-run-raises/percent-in-url"
            self.fail(key, f"{argv}: {r.raised!r}")
            return
        if file_after is None:
            self.fail("write-did-not-create-file", str(argv))
            return
        text = file_after.decode("utf_8", "replace")
        if PASSWORD in text:
            self.fail("password-stored", str(argv))
        defaults_sec, secs = G.read_user_file(self.root)
        cu = defaults_sec.get("clientuid")
        if not cu or not re.fullmatch(r"[0-9A-Fa-f]{8}-[0-9A-Fa-f]{4}-[0-9A-Fa-f]{4}-[0-9A-Fa-f]{4}-[0-9A-Fa-f]{12}", cu):
            self.fail("default-clientuid-missing-or-not-uuid", repr(cu))
        elif self.default_clientuid is not None and cu != self.default_clientuid:
            self.fail("default-clientuid-changed", f"{self.default_clientuid} -> {cu}")
        self.default_clientuid = cu or self.default_clientuid
        if any(r.effective[o] not in NULLS and r.effective[o] != r.module.DEFAULTS[o] for o in PERSISTABLE):  # noqa
            self.flags.add("write-differs-from-default")
        eff = r.effective
        if mode == "acctinfo-write":
            # discovered accounts have been merged below the command line and above the files
            eff = {k: r.merged[k] for k in r.module.DEFAULTS}
            self.flags.add("acctinfo --write")
            want = {t: [] for t in LIST_OPTS}
            for a in self.accts:
                if a["status"] != "ACTIVE":
                    continue
                t = {"cc": "creditcard", "inv": "investment"}.get(a["kind"]) or a["accttype"].lower()
                want[t].append(a["acctid"])
            for t, ids in want.items():
                if ids and sorted(eff[t] or []) != sorted(ids):
                    self.fail(f"discovered-accounts-wrong/{t}", f"{argv}: ACTIVE {t} accounts {ids}, settings in effect {eff[t]!r}")
            inactive = {a["acctid"] for a in self.accts if a["status"] != "ACTIVE"} - {a["acctid"] for a in self.accts if a["status"] == "ACTIVE"}
            for t in LIST_OPTS:
                user_ids = set(G.typed(list, user_texts[t])) if t in user_texts else set()
                if (set(eff[t] or []) & inactive) - user_ids and t in want and want[t]:
                    self.fail("inactive-account-stored", f"{argv}: {t}={eff[t]!r}")
        # (2) persistence: same nickname, no command-line options
        r2 = G.run(self.root, ["stmt", nick], handler=False)
        if r2.merged is None:
            self.fail("rerun-after-write-fails", f"{r2.raised!r}")
            return
        for o in PERSISTABLE:
            a, b = eff[o], r2.effective[o]
            if (a in NULLS) and (b in NULLS):
                continue
            if mode == "acctinfo-write" and a in NULLS and r.effective[o] not in NULLS:
                # the discovery found no ACTIVE account of this kind and shadows a configured list with an empty one:
                # whether "empty" sets or unsets is not stated (same rule as for empty values in the files)
                self.flags.add("skipped: empty discovered list over a configured one")
                continue
            if o == "clientuid" and a in NULLS:
                if b != cu and "clientuid" not in self.ambiguous:
                    self.fail("default-clientuid-not-effective", f"run without CLIENTUID has {b!r}, [DEFAULT] has {cu!r}")
                continue
            if a != b:
                key = f"persist-lost/{o}"
                if o in cli_vals and cli_vals[o] == a:
                    lib = G.fidb().get(nick, {}).get(o)
                    dflt = G.typed(dict(r.module.CONFIGURABLE)[o], lib) if lib is not None else r.module.DEFAULTS[o]
                    if a == dflt:
                        key = "persist-lost/cli-value-equal-to-library-default-does-not-replace-user-value"
                self.fail(key, f"{argv}: effective {o}={a!r}; after --write and re-run without options: {b!r}")
                break


def check_case(case):
    global STATS
    H.setup_path()
    saved = STATS
    STATS = H.Stats()
    try:
        m = ConfigMachine()
        try:
            for stp in case:
                m.history.append(stp)
                m.execute(stp)
        finally:
            m.teardown()
        return [(k, v[2]) for k, v in STATS.failures.items()]
    finally:
        STATS = saved


def _worker(job):
    global STATS
    H.setup_path()
    from hypothesis import seed, settings, HealthCheck, Phase
    from hypothesis.stateful import run_state_machine_as_test

    n, steps, sd = job
    STATS = H.Stats()
    run_state_machine_as_test(
        seed(sd)(ConfigMachine),
        settings=settings(max_examples=n, stateful_step_count=steps, database=None, deadline=None, report_multiple_bugs=False, suppress_health_check=list(HealthCheck), phases=[Phase.generate]),
    )
    s = STATS
    STATS = None
    return s


def run(ctx):
    n = ctx.scale(24, 200)
    steps = ctx.scale(5, 8)
    ctx.pmap(_worker, [(n, steps, ctx.sub_seed(i)) for i in range(16)])
