"""C13 - every child a model class declares can actually be built, written and read back."""
from __future__ import annotations

import io
import warnings

from pbt.core import harness as H
from pbt.core import modelgen as M
from pbt.core import docgen as D
from pbt.checks import c01

PID = "C13"
LEVEL = "exploration"
RULE = (
    "finite space enumerated exhaustively: every Aggregate subclass found in any module of ofxtools.models x obligations: "
    "(found-by-tag) the package namespace resolves the tag to the class; (schema-walk) after the public class-level mappings of "
    "every class have been read, bases first, each class still reports exactly the children its body declares; (child) for every declared element, sub-aggregate "
    "and repeated member: a minimal valid parent containing it is constructed, written under the child's OFX tag (FROM/YIELD "
    "renames honoured), and read back through the wire (XML and SGML) into the same attribute / list without an unknown-tag "
    "warning; (unsupported) a document carrying an Unsupported child's tag converts without error or unknown-tag warning; "
    "(group) every exclusivity group names declared, non-repeated, optional children and two members (resp. none) are rejected "
    "in every inheriting class; (maximal) for classes with repeated children a maximal instance (all children, >=1 member of "
    "every list type, interleaved within a list group) is accepted by the library's own reader; every element probe is repeated "
    "with falsy (0, False, '0', 0.00) and negative values.  Each obligation is a distinct "
    "(class, child, obligation) triple; all are non-trivial"
)
ASSUMPTIONS = ["values for the probes come from the harness's minimal-instance builder", "rejected = any Exception"]


def alt_scalars(t):
    """Valid but unusual values of an element: falsy ones and negative ones."""
    from ofxtools import Types

    if isinstance(t, Types.Bool):
        return [["bool", False]]
    if isinstance(t, Types.Integer):
        return [["int", 0], ["int", -1]]
    if isinstance(t, Types.Decimal):
        k = 0 if t.scale is None else -t.scale.as_tuple().exponent
        frac = ("." + "0" * k) if k else ""
        return [["dec", "0" + (frac or ".00")], ["dec", "-0" + (("." + "0" * (k - 1) + "5") if k else ".52")]]
    if isinstance(t, Types.OneOf) or isinstance(t, Types.DateTime):
        return []
    if isinstance(t, Types.String):
        return [["str", "0"], ["str", "N"]]
    return []


def obligations(cls):
    name = cls.__name__
    out = [{"ob": "found-by-tag"}, {"ob": "schema-walk"}]
    for attr, kind, t in M.decl(cls):
        if kind == "unsupported":
            out.append({"ob": "unsupported", "attr": attr})
        else:
            out.append({"ob": "child", "attr": attr, "kind": kind})
            if kind == "elem" and alt_scalars(t):
                # the same probe with values a careless "if value:" / "looks like a number" test would drop
                for i in range(len(alt_scalars(t))):
                    out.append({"ob": "child", "attr": attr, "kind": kind, "alt": i})
    opt, req = M.mutex_groups(cls)
    for g in opt:
        out.append({"ob": "group", "group": list(g), "required": False})
    for g in req:
        out.append({"ob": "group", "group": list(g), "required": True})
    if M.has_list(cls):
        out.append({"ob": "maximal"})
    for o in out:
        o["cls"] = name
    return out


def maximal(cls):
    d = M.decl(cls)
    opt, req = M.mutex_groups(cls)
    kw = {}
    excluded = set()
    for g in list(opt) + list(req):
        keep = None
        for a in g:
            if a not in excluded and keep is None:
                keep = a
            elif a != keep:
                excluded.add(a)
    for attr, kind, t in d:
        if kind == "elem" and attr not in excluded:
            kw[attr] = M.minimal_scalar(t)
        elif kind == "sub" and attr not in excluded:
            kw[attr] = M.minimal(t.__type__)
    lst = []
    le = M.list_elem(cls)
    if le:
        lst = [M.minimal_scalar(le[1]), M.minimal_scalar(le[1])]
    else:
        mts = [c for a, c in M.member_types(cls).items() if a not in excluded]
        for rnd in range(2):
            for c in (mts if rnd == 0 else list(reversed(mts))):
                lst.append(M.minimal(c))
    desc = {"cls": cls.__name__, "kw": kw, "list": lst}
    # custom constraints
    name = cls.__name__
    if name == "ACCTINFO":
        seen, keep = set(), []
        for m in lst:
            if m["cls"] not in seen:
                seen.add(m["cls"])
                keep.append(m)
        desc["list"] = keep
    if name == "CONTRIBSECURITY":
        desc["kw"] = {k: v for k, v in kw.items() if not k.endswith("amt")}
    if name == "SONRQ":
        desc["kw"].pop("userkey", None)
    if name == "OFX":
        desc["kw"] = {k: v for k, v in kw.items() if k.endswith("rqv1")}
    if name in ("TAX1099INT_V100", "TAX1099DIV_V100"):
        desc["kw"].pop("forcnt", None)
    if name == "TAX1099MISC_V100":
        desc["kw"].pop("sttaxwh", None)
    M.order_members(desc)
    return desc


def wire_roundtrip(inst, sgml):
    from ofxtools.Client import OFXClient
    from ofxtools.Parser import OFXTree

    data = OFXClient("https://x.invalid", version=102 if sgml else 203, close_elements=not sgml).serialize(inst)
    t = OFXTree()
    t.parse(io.BytesIO(data))
    return t.convert()


def check_case(case):
    H.setup_path()
    import ofxtools.models as models
    from ofxtools.models.base import Aggregate, UnknownTagWarning

    classes = {c.__name__: c for c in M.all_classes_including_bases()}
    cls = M.universe().get(case["cls"]) or classes[case["cls"]]
    ob = case["ob"]
    name = cls.__name__
    out = []
    if ob == "schema-walk":
        return [("declared-children-differ-after-schema-walk", f"{c}: class body declares {m}, the class reports {t}") for c, m, t in schema_walk() if c == name]
    if ob == "found-by-tag":
        if getattr(models, name, None) is not cls:
            out.append(("class-not-found-by-tag", f"getattr(ofxtools.models, {name!r}) is {getattr(models, name, None)!r}"))
        return out
    with warnings.catch_warnings(record=True) as wlog:
        warnings.simplefilter("always")
        if ob == "child":
            attr, kind = case["attr"], case["kind"]
            mt = M.member_types(cls)
            try:
                if kind == "listagg":
                    desc = M.minimal(cls, with_member=mt[attr].__name__)
                elif kind == "listelem":
                    desc = M.minimal(cls, with_member=M.minimal_scalar(M.list_elem(cls)[1]))
                else:
                    desc = M.minimal(cls, with_attr=attr)
                _custom_patch(desc, attr)
                if "alt" in case:
                    t = {a: tt for a, k, tt in M.decl(cls)}[attr]
                    desc["kw"][attr] = alt_scalars(t)[case["alt"]]
                inst = M.build(desc)
            except Exception as e:
                return [(f"child-cannot-be-constructed/{kind}", f"{name}.{attr}: {e!r}")]
            tag = M.tag_of(cls, attr) if kind != "listagg" else mt[attr].__name__
            try:
                et = inst.to_etree()
            except Exception as e:
                return [(f"child-cannot-be-written/{kind}", f"{name}.{attr}: {e!r}")]
            if not [c for c in et if c.tag == tag]:
                out.append((f"child-not-written-under-its-tag/{kind}", f"{name}.{attr}: expected <{tag}> among {[c.tag for c in et]}"))
            for sgml in (False, True):
                del wlog[:]
                if sgml and c01.empty_followed_by_sibling(et):
                    continue  # known finding of C01 (unclosed SGML, empty aggregate followed by a sibling)
                try:
                    back = wire_roundtrip(inst, sgml)
                except Exception as e:
                    out.append((f"child-not-read-back/{kind}", f"{name}.{attr} ({'sgml' if sgml else 'xml'}): {e!r}"))
                    continue
                unk = [str(w.message) for w in wlog if issubclass(w.category, UnknownTagWarning)]
                if unk:
                    out.append((f"child-skipped-as-unknown/{kind}", f"{name}.{attr}: {unk[:1]}"))
                df = M.model_diff(inst, back)
                if df:
                    out.append((f"child-read-back-differently/{kind}", f"{name}.{attr}: {df[:2]}"))
                elif kind in ("elem", "sub") and M.stored(back, attr) is None:
                    out.append((f"child-lost/{kind}", f"{name}.{attr}"))
                elif kind in ("listagg", "listelem") and len(list(list.__iter__(back))) != len(desc["list"]):
                    out.append((f"member-lost/{kind}", f"{name}.{attr}"))
        elif ob == "unsupported":
            attr = case["attr"]
            side_attr = "signonmsgsrsv1" if (name == "OFX" and attr.endswith("rsv1")) else None
            tree = D.to_etree(M.minimal(cls, with_attr=side_attr))
            import xml.etree.ElementTree as ET

            # the unsupported child is put where the class declares it: find the position by declaration order
            names = [a for a, k, t in M.decl(cls)]
            pos = 0
            for i, c in enumerate(tree):
                found = [a for a, k, t in M.decl(cls) if M.tag_of(cls, a) == c.tag or (k == "listagg" and t.__type__.__name__ == c.tag)]
                if found and names.index(found[0]) < names.index(attr):
                    pos = i + 1
            e = ET.Element(attr.upper())
            ET.SubElement(e, "ZZANY").text = "x"
            tree.insert(pos, e)
            try:
                Aggregate.from_etree(tree)
            except Exception as ex:
                out.append(("unsupported-child-breaks-conversion", f"{name}.{attr}: {ex!r}"))
            unk = [str(w.message) for w in wlog if issubclass(w.category, UnknownTagWarning) and attr.upper() in str(w.message)]
            if unk:
                out.append(("unsupported-child-warned-as-unknown", f"{name}.{attr}: {unk[:1]}"))
        elif ob == "group":
            g = case["group"]
            types = {a: (k, t) for a, k, t in M.decl(cls)}
            for a in g:
                if a not in types:
                    out.append(("group-names-undeclared-child", f"{name}: {g} names {a!r}"))
                elif types[a][0] in ("listagg", "listelem"):
                    out.append(("group-names-repeated-child", f"{name}: {g} names repeated child {a!r}"))
                elif types[a][0] == "unsupported":
                    out.append(("group-names-unsupported-child", f"{name}: {g} names {a!r}"))
                elif types[a][1].required:
                    out.append(("group-names-required-child", f"{name}: {g} names required child {a!r}"))
            if out or not name.isupper():
                return out
            from pbt.checks import c04

            usable = [a for a in g if a in types and types[a][0] in ("elem", "sub")]
            for i in range(len(usable)):
                for j in range(i + 1, len(usable)):
                    o = {"kind": "two-of-exactly-one" if case["required"] else "two-of-at-most-one", "a": usable[i], "b": usable[j], "cls": name, "group": g}
                    for k, d in c04.check_case({"ob": o, "route": "constructor"}):
                        out.append((f"group-not-in-force/{'currency-origcurrency' if set(g) == {'currency', 'origcurrency'} else 'other'}", f"{name}: {d}"))
                    # ... and in an instance that also carries list members (one of every permitted kind that the group
                    # itself does not exclude)
                    mts = M.member_types(cls)
                    if mts and not out:
                        for pick in sorted(mts):
                            if pick in g:
                                continue
                            try:
                                base = M.minimal(cls, with_member=mts[pick].__name__)
                                M.build(base)
                            except Exception:
                                continue
                            for k, d in c04.check_case({"ob": o, "base": base}):
                                if k.startswith("violation-accepted"):
                                    out.append(("group-not-in-force/with-list-members", f"{name} (with a {mts[pick].__name__} member): {d}"))
                            if out:
                                break
            # a member passed explicitly as None is an absent member: one real member plus Nones is a valid instance, and
            # Nones alone do not satisfy a required group
            for a in (usable[:2] if name not in M.custom_constrained_classes() else []):  # hand-written rules have their own notion of "given"
                try:
                    desc = M.minimal(cls, with_attr=a)
                    _custom_patch(desc, a)
                    kw = {k: (M.untag(v) if M.is_scalar(v) else M.build(v)) for k, v in desc["kw"].items()}
                    members = [M.untag(m) if M.is_scalar(m) else M.build(m) for m in desc["list"]]
                    cls(*members, **kw)
                except Exception:
                    continue  # the plain instance cannot be built this way (custom rules): nothing to compare with
                for other in usable:
                    if other != a and other not in kw:
                        kw[other] = None
                try:
                    cls(*members, **kw)
                except Exception as e:
                    out.append(("group-counts-explicit-None-as-present", f"{name}({a}=..., {', '.join(o + '=None' for o in usable if o != a)}): {e!r}"))
            if case["required"]:
                try:
                    base = M.minimal(cls)
                    kw = {k: (M.untag(v) if M.is_scalar(v) else M.build(v)) for k, v in base["kw"].items() if k not in g}
                    kw.update({m: None for m in usable})
                    members = [M.untag(m) if M.is_scalar(m) else M.build(m) for m in base["list"]]
                    cls(*members, **kw)
                    out.append(("required-group-satisfied-by-None", f"{name}({', '.join(m + '=None' for m in usable)}) was built"))
                except Exception:
                    pass
            if case["required"]:
                o = {"kind": "none-of-exactly-one", "group": g, "cls": name}
                for k, d in c04.check_case({"ob": o, "route": "constructor"}):
                    out.append(("required-group-not-in-force", f"{name}: {d}"))
        elif ob == "maximal":
            try:
                desc = maximal(cls)
                inst = M.build(desc)
            except Exception as e:
                return [("maximal-instance-cannot-be-constructed", f"{name}: {e!r}")]
            for sgml in (False, True):
                if sgml and c01.empty_followed_by_sibling(inst.to_etree()):
                    continue
                try:
                    back = wire_roundtrip(inst, sgml)
                    df = M.model_diff(inst, back)
                    if df:
                        out.append(("maximal-instance-read-back-differently", f"{name}: {df[:2]}"))
                except Exception as e:
                    out.append(("maximal-instance-rejected-by-own-reader", f"{name} ({'sgml' if sgml else 'xml'}): {e!r}"))
        else:
            raise H.HarnessError(case)
    return out


def _custom_patch(desc, attr):
    """minimal(with_attr) knows declared groups; the hand-tabled custom exclusions are applied here."""
    name = desc["cls"]
    kw = desc["kw"]
    if name == "CONTRIBSECURITY" and attr != "secid":
        suffix = attr[-3:]
        for k in list(kw):
            if k != "secid" and not k.endswith(suffix):
                del kw[k]
    if name == "SONRQ":
        if attr == "userkey":
            kw.pop("userid", None)
            kw.pop("userpass", None)
    if name == "OFX":
        side = attr[-4:] if attr.endswith("v1") else None
        if side:
            for k in list(kw):
                if not k.endswith(side):
                    del kw[k]
            sig = "signonmsgs" + side
            if sig not in kw:
                kw[sig] = M.minimal(M.universe()[sig.upper()])
    if name == "TAX1099R_V100" and attr in ("grossdist", "taxamt", "fedtaxwh"):
        kw.setdefault("irasepsimp", ["bool", True])
    if name == "TAX1099MISC_V100" and attr == "sttaxwh":
        kw.setdefault("payerstate", ["str", "NY"])


def schema_walk():
    """What any schema-introspecting caller does first: read the public class-level mappings of every class,
    bases before subclasses.  Declarations are per class: reading them on a base must not change a subclass.
    -> list of (class, harness declaration keys, library spec keys) that disagree."""
    bad = []
    classes = M.all_classes_including_bases()
    classes.sort(key=lambda c: len(c.__mro__))
    for c in classes:
        for prop in ("spec", "spec_no_listaggregates", "elements", "subaggregates", "unsupported", "listaggregates", "listelements"):
            getattr(c, prop)
    for c in classes:
        mine = [k for k, _, _ in M.decl(c)]
        theirs = list(c.spec.keys())
        if mine != theirs:
            bad.append((c.__name__, mine, theirs))
    return bad


def _worker(names):
    H.setup_path()
    s = H.Stats()
    classes = {c.__name__: c for c in M.all_classes_including_bases()}
    for cname, mine, theirs in schema_walk():
        if cname in names:
            case = {"cls": cname, "ob": "schema-walk"}
            s.fail("declared-children-differ-after-schema-walk", case, f"{cname}: class body declares {mine}, the class reports {theirs}")
    for name in names:
        cls = classes[name]
        obs = obligations(cls) if name.isupper() else [o for o in obligations(cls) if o["ob"] == "group"]
        for ob in obs:
            s.case(ob, nontrivial=True, labels=["obligation:" + ob["ob"] + ("/" + ob["kind"] if "kind" in ob else "")])
            for k, d in check_case(ob):
                s.fail(k, ob, d)
        s.label("classes covered")
    return s


def run(ctx):
    H.setup_path()
    classes = sorted({c.__name__ for c in M.all_classes_including_bases()})
    # self-test: every ALL-CAPS subclass reachable by __subclasses__ is in the module walk and vice versa
    caps = {n for n in classes if n.isupper()}
    if caps != set(M.universe()):
        raise H.HarnessError(f"class universe mismatch: {sorted(caps ^ set(M.universe()))[:5]}")
    ctx.pmap(_worker, [classes[i::32] for i in range(32)])
    ctx.exhaustive = True
    ctx.note("classes", len(classes))
