"""C20 - security-identifier check digits (CUSIP / SEDOL / ISIN)."""
from __future__ import annotations

import itertools
import string

import os

from hypothesis import strategies as st

from pbt.core import harness as H

PID = "C20"
LEVEL = "exploration"
RULE = (
    "bases enumerated exhaustively over digit sub-spaces (each base visited once: distinct by "
    "construction) and sampled with Hypothesis over the full alphabets (CUSIP 0-9A-Z*@#, SEDOL "
    "digits+consonants, ISIN agency-prefix + 9 alphanumerics); for every base the check digit is "
    "compared with an independent implementation of the public algorithm, the completed id must "
    "validate, all 35 replacements of the check character, 14 wrong lengths and the id with one extra character (line ends, blanks, NUL, "
    "digit; front or back) must not validate; a lower-case spelling is refused or gets the upper-case check digit; "
    "non-trivial = base with >=1 non-zero digit or letter whose 35 check-character replacements were "
    "all tried (sampled digit-only bases are not counted, they overlap the enumerated space)"
)
ASSUMPTIONS = [
    "reference algorithms: CUSIP modulus-10 double-add-double (*=36,@=37,#=38), SEDOL weights 1,3,1,7,3,9, ISIN Luhn over letter-expanded digits",
    "'never validates' = returns False or raises",
    "known country prefixes = the two-letter keys of the library's numbering-agency table",
]

ALNUM = string.digits + string.ascii_uppercase
CUSIP_ALPHA = ALNUM + "*@#"
SEDOL_ALPHA = string.digits + "BCDFGHJKLMNPQRSTVWXYZ"


# ---- independent reference implementations --------------------------------
def _val(c):
    if c == "*":
        return 36
    if c == "@":
        return 37
    if c == "#":
        return 38
    o = ord(c)
    if 48 <= o <= 57:
        return o - 48
    if 65 <= o <= 90:
        return o - 55
    raise ValueError(c)


def ref_cusip(base):
    total = 0
    for i, c in enumerate(base):
        v = _val(c)
        if i % 2 == 1:
            v *= 2
        total += v // 10 + v % 10
    return str((10 - total % 10) % 10)


def ref_sedol(base):
    w = (1, 3, 1, 7, 3, 9)
    total = sum(_val(c) * w[i] for i, c in enumerate(base))
    return str((10 - total % 10) % 10)


def ref_isin(base):
    digits = []
    for c in base:
        v = _val(c)
        if v >= 10:
            digits.append(v // 10)
            digits.append(v % 10)
        else:
            digits.append(v)
    total = 0
    # rightmost digit of the base is doubled (the check digit will sit to its right)
    for n, d in enumerate(reversed(digits)):
        if n % 2 == 0:
            d *= 2
            total += d // 10 + d % 10
        else:
            total += d
    return str((10 - total % 10) % 10)


def _never_validates(fn, s):
    try:
        return not fn(s)
    except Exception:
        return True


# one character too many: line ends, blanks, a NUL, a digit - in front or behind
PADS = ["\n", "\r", "\r\n", " ", "\t", "\x00", "0", "\u00a0"]


def _case_variant(nm, fn, base, exp):
    """Letters are letters: a base spelled in lower case is either refused or gets the check digit of its upper-case
    spelling (the public algorithms assign values to letters, not to cases)."""
    low = base.lower()
    if low == base:
        return []
    try:
        got = fn(low)
    except Exception:
        return []
    return [] if got == exp else [(f"{nm}-checkdigit-of-lower-case-spelling", f"base={low!r} library={got!r}, upper-case spelling has {exp!r}")]


def _prefixes():
    from ofxtools.lib import NUMBERING_AGENCIES

    return sorted(k for k in NUMBERING_AGENCIES if len(k) == 2)


# ---- one case --------------------------------------------------------------
def check_case(case):
    from ofxtools import utils

    kind, base = case["kind"], case["base"]
    out = []
    if kind == "cusip":
        exp = ref_cusip(base)
        try:
            got = utils.cusip_checksum(base)
        except Exception as e:
            return [("cusip-checksum-raises", f"{base!r}: {e!r}")]
        if got != exp:
            out.append(("cusip-checkdigit", f"base={base!r} library={got!r} reference={exp!r}"))
        full = base + exp
        try:
            ok = utils.validate_cusip(full)
        except Exception as e:
            ok = False
        if ok is not True:
            out.append(("cusip-valid-rejected", f"{full!r}"))
        for c in ALNUM:
            if c != exp and not _never_validates(utils.validate_cusip, base + c):
                out.append(("cusip-corrupt-accepted", f"{base + c!r} (correct check {exp})"))
                break
        for s in [(full * 2)[:n] for n in list(range(0, 9)) + list(range(10, 15))] + [full + ch for ch in PADS] + [ch + full for ch in PADS]:
            if not _never_validates(utils.validate_cusip, s):
                out.append(("cusip-length", f"{s!r}"))
                break
        out += _case_variant("cusip", utils.cusip_checksum, base, exp)
        if all(c in ALNUM for c in base):
            for nat in ("US", "CA", "GB"):
                wrapped = nat + full + ref_isin(nat + full)  # a valid ISIN embedding this CUSIP: 12 characters, not a CUSIP
                if not _never_validates(utils.validate_cusip, wrapped):
                    out.append(("cusip-length", f"validate_cusip({wrapped!r}) accepts an ISIN"))
                    break
        if all(c in ALNUM for c in base):
            nation = case.get("nation")
            try:
                isin = utils.cusip2isin(full, nation) if nation else utils.cusip2isin(full)
            except Exception as e:
                out.append(("cusip2isin", f"{full!r} nation={nation!r} raised {e!r}"))
            else:
                nat = nation or "US"
                want = nat + full + ref_isin(nat + full)
                if isin != want or len(isin) != 12 or utils.validate_isin(isin) is not True:
                    out.append(("cusip2isin", f"{full!r} nation={nation!r} -> {isin!r}, expected {want!r}"))
    elif kind == "sedol":
        exp = ref_sedol(base)
        try:
            got = utils.sedol_checksum(base)
        except Exception as e:
            return [("sedol-checksum-raises", f"{base!r}: {e!r}")]
        if got != exp:
            out.append(("sedol-checkdigit", f"base={base!r} library={got!r} reference={exp!r}"))
        full = base + exp
        nation = case.get("nation")
        out += _case_variant("sedol", utils.sedol_checksum, base, exp)
        try:
            isin = utils.sedol2isin(full, nation) if nation else utils.sedol2isin(full)
        except Exception as e:
            out.append(("sedol2isin", f"{full!r} nation={nation!r} raised {e!r}"))
        else:
            nat = nation or "GB"
            want = nat + "00" + full + ref_isin(nat + "00" + full)
            if isin != want or len(isin) != 12 or utils.validate_isin(isin) is not True:
                out.append(("sedol2isin", f"{full!r} nation={nation!r} -> {isin!r}, expected {want!r}"))
        # a SEDOL with a wrong check character is never converted into a *valid-looking* ISIN
        for c in ALNUM:
            if c == exp:
                continue
            try:
                r = utils.sedol2isin(base + c, nation) if nation else utils.sedol2isin(base + c)
            except Exception:
                continue
            out.append(("sedol-corrupt-accepted", f"sedol2isin({base + c!r}) -> {r!r} (correct check {exp})"))
            break
    elif kind == "isin":
        exp = ref_isin(base)
        try:
            got = utils.isin_checksum(base)
        except Exception as e:
            return [("isin-checksum-raises", f"{base!r}: {e!r}")]
        if got != exp:
            out.append(("isin-checkdigit", f"base={base!r} library={got!r} reference={exp!r}"))
        full = base + exp
        try:
            ok = utils.validate_isin(full)
        except Exception:
            ok = False
        if ok is not True:
            out.append(("isin-valid-rejected", f"{full!r}"))
        for c in ALNUM:
            if c != exp and not _never_validates(utils.validate_isin, base + c):
                out.append(("isin-corrupt-accepted", f"{base + c!r} (correct check {exp})"))
                break
        for s in [(full * 2)[:n] for n in list(range(0, 12)) + list(range(13, 17))] + [full + ch for ch in PADS] + [ch + full for ch in PADS]:
            if not _never_validates(utils.validate_isin, s):
                out.append(("isin-length", f"{s!r}"))
                break
    elif kind == "garbage":
        # characters outside every alphabet: never validates (False or an exception) - and leaves no trace:
        # the valid identifier checked right afterwards still validates
        s_ = case["text"]
        for fn, nm in ((utils.validate_cusip, "cusip"), (utils.validate_isin, "isin")):
            if not _never_validates(fn, s_):
                out.append((f"garbage-validates/{nm}", f"{s_!r}"))
        for fn, arg in ((utils.cusip_checksum, s_[:8]), (utils.sedol_checksum, s_[:6]), (utils.isin_checksum, ("US" + s_)[:11])):
            try:
                fn(arg)
            except Exception:
                pass
        for good, fn in (("037833100", utils.validate_cusip), ("US0378331005", utils.validate_isin), ("38259P508", utils.validate_cusip)):
            try:
                ok = fn(good)
            except Exception as e:
                ok = repr(e)
            if ok is not True:
                out.append(("valid-id-rejected-after-garbage-input", f"after {s_!r}: {fn.__name__}({good!r}) = {ok!r}"))
        if utils.cusip_checksum("08467010") != "8" or utils.sedol_checksum("B0YBKJ") != "7" or utils.isin_checksum("US037833100") != "5":
            out.append(("checksum-wrong-after-garbage-input", f"after {s_!r}"))
    elif kind == "order":
        return order_case(case)
    elif kind == "isin-prefix":
        # unknown prefix: whatever check character, never validates
        stem = case["stem"]
        b = base + stem
        for conv, good in ((utils.sedol2isin, "B0YBKJ7"), (utils.cusip2isin, "037833100")):
            try:
                r = conv(good, base)
            except Exception:
                continue
            if not _never_validates(utils.validate_isin, r):
                out.append(("isin-unknown-prefix-accepted", f"{conv.__name__}({good!r}, {base!r}) -> {r!r}, which validates"))
        for c in ALNUM:
            if not _never_validates(utils.validate_isin, b + c):
                out.append(("isin-unknown-prefix-accepted", f"{b + c!r}"))
                break
    else:
        raise H.HarnessError(f"bad case {case}")
    return out


# ---- enumeration workers ----------------------------------------------------
def _enum_worker(job):
    """Exhaustive sub-space: light-weight per-base obligations, full check_case on a stride."""
    H.setup_path()
    from ofxtools import utils

    kind, prefix, width, stride = job
    st_ = H.Stats()
    n = 0
    nt = 0
    fmt = "%0" + str(width) + "d"
    for i in range(10**width):
        base = prefix + (fmt % i)
        n += 1
        if kind == "cusip":
            exp = ref_cusip(base)
            bad = utils.cusip_checksum(base) != exp or utils.validate_cusip(base + exp) is not True
            if not bad:
                # two other digits as check character on every base (all 35 replacements on the stride below)
                e = int(exp)
                for d in (str((e + 1 + i % 9) % 10), str((e + 1 + (i // 9) % 9) % 10)):
                    if d != exp and utils.validate_cusip(base + d):
                        bad = True
                        break
        elif kind == "sedol":
            exp = ref_sedol(base)
            bad = utils.sedol_checksum(base) != exp
        else:
            exp = ref_isin(base)
            bad = utils.isin_checksum(base) != exp or utils.validate_isin(base + exp) is not True
            if not bad:
                e = int(exp)
                for d in (str((e + 1 + i % 9) % 10), str((e + 1 + (i // 9) % 9) % 10)):
                    if d != exp and utils.validate_isin(base + d):
                        bad = True
                        break
        full_check = bad or (i % stride == 0)
        if full_check:
            case = {"kind": kind, "base": base}
            for k, d in check_case(case):
                st_.fail(k, case, d)
            if i % (stride * 50) == 0:
                st_.sample(case)
        if base.strip("0"):
            nt += 1
    st_.count(n, nontrivial_enum=nt)
    st_.label(f"enumerated-{kind}", n)
    return st_


def _sample_worker(job):
    H.setup_path()
    kind, n, seed = job
    s = H.Stats()
    prefixes = _prefixes()
    if kind == "cusip":
        strat = st.builds(
            lambda b, nat: {"kind": "cusip", "base": b, **({"nation": nat} if nat else {})},
            st.text(alphabet=CUSIP_ALPHA, min_size=8, max_size=8),
            st.one_of(st.none(), st.sampled_from(prefixes)),
        )
    elif kind == "sedol":
        strat = st.builds(
            lambda b, nat: {"kind": "sedol", "base": b, **({"nation": nat} if nat else {})},
            st.text(alphabet=SEDOL_ALPHA, min_size=6, max_size=6),
            st.one_of(st.none(), st.sampled_from(prefixes)),
        )
    elif kind == "isin":
        plain = st.builds(
            lambda p, b: {"kind": "isin", "base": p + b},
            st.sampled_from(prefixes),
            st.text(alphabet=ALNUM, min_size=9, max_size=9),
        )
        # national parts as issuers build them: two padding zeros and seven characters (GB, IE, ...), all digits
        padded = st.builds(
            lambda p, b: {"kind": "isin", "base": p + "00" + b},
            st.sampled_from([p for p in ["GB", "IE", "GB", "JE", "IM", "US", "DE"] if p in prefixes] or prefixes[:1]),
            st.one_of(st.text(alphabet=ALNUM, min_size=7, max_size=7), st.text(alphabet="0123456789", min_size=7, max_size=7)),
        )
        strat = st.one_of(plain, plain, padded)
    elif kind == "garbage":
        strat = st.builds(
            lambda a, junk, pos: {"kind": "garbage", "base": "", "text": (a[:pos] + junk + a[pos:])[:12]},
            st.text(alphabet=ALNUM, min_size=8, max_size=12), st.sampled_from([" ", "-", "_", ".", "?", "é", "\n", "--", "  "]), st.integers(0, 8),
        )
    else:
        known = set(prefixes)
        unknown = [a + b for a in string.ascii_uppercase for b in string.ascii_uppercase if a + b not in known]
        strat = st.builds(
            lambda p, b: {"kind": "isin-prefix", "base": p, "stem": b},
            st.sampled_from(unknown),
            st.text(alphabet=ALNUM, min_size=9, max_size=9),
        )

    def body(case):
        base = case["base"] + case.get("stem", "") + case.get("text", "")
        nontrivial = any(c not in string.digits for c in base)
        labs = [f"sampled-{kind}"]
        if any(c in "*@#" for c in base):
            labs.append("cusip-special-char")
        if case.get("nation"):
            labs.append("explicit-nation")
        s.case(case, nontrivial=nontrivial, labels=labs)
        for k, d in check_case(case):
            s.fail(k, case, d)

    H.hyp_run(strat, body, n, seed, stats=s)
    return s


def _prefix_worker(job):
    """Every unknown 2-letter prefix x a few stems; every known prefix x a 10^4 sub-space."""
    H.setup_path()
    from ofxtools import utils

    kind, items, stems = job
    s = H.Stats()
    if kind == "unknown":
        for p in items:
            for stem in stems:
                case = {"kind": "isin-prefix", "base": p, "stem": stem}
                s.case(case, nontrivial=True, labels=["unknown-prefix"])
                for k, d in check_case(case):
                    s.fail(k, case, d)
    else:
        for p in items:
            for stem in stems:
                # vary two positions of the stem over all 100 digit pairs... and letters
                n = nt = 0
                for a, b in itertools.product(ALNUM, repeat=2):
                    base = p + stem[:3] + a + stem[4:7] + b + stem[8:]
                    exp = ref_isin(base)
                    n += 1
                    nt += 1
                    if utils.isin_checksum(base) != exp or utils.validate_isin(base + exp) is not True:
                        case = {"kind": "isin", "base": base}
                        for k, d in check_case(case):
                            s.fail(k, case, d)
                s.count(n, nontrivial_enum=0)
                s.label("known-prefix-subspace", n)
                case = {"kind": "isin", "base": p + stem}
                s.case(case, nontrivial=True)
                for k, d in check_case(case):
                    s.fail(k, case, d)
    return s


ORDER_PROBES = {
    "cusip": "print(utils.cusip_checksum('0846701*'), utils.cusip_checksum('08467010'), utils.validate_cusip('0846701*' + utils.cusip_checksum('0846701*')), utils.validate_cusip('084670108'))",
    "sedol": "print(utils.sedol_checksum('B0YBKJ'), utils.sedol2isin('B0YBKJ7'))",
    "isin": "print(utils.isin_checksum('US037833100'), utils.validate_isin('US0378331005'), utils.validate_isin('ZZ0378331005'))",
    "garbage": "print([f(x) if False else None for f in () for x in ()]); [__import__('contextlib').suppress(Exception).__enter__() for _ in ()]",
}


def order_case(case):
    """The same calls in every order, each order in a fresh interpreter: what one routine answers does not depend on which
    routine ran first."""
    import subprocess
    import sys

    def script(order):
        lines = ["from ofxtools import utils"]
        for nm in order:
            lines.append("try:\n    " + ORDER_PROBES[nm] + "\nexcept Exception as e:\n    print('raised', type(e).__name__)")
        return "\n".join(lines)

    def run_(order):
        p = subprocess.run([sys.executable, "-c", script(order)], capture_output=True, text=True, env=dict(os.environ, PYTHONPATH=H.REPO), timeout=120)
        return dict(zip(order, p.stdout.strip().splitlines()))

    ref = {nm: run_([nm]).get(nm) for nm in case["order"]}
    got = run_(case["order"])
    out = []
    for nm in case["order"]:
        if got.get(nm) != ref[nm]:
            out.append((f"result-depends-on-call-order/{nm}", f"after {case['order'][: case['order'].index(nm)]}: {got.get(nm)!r}, alone in a fresh interpreter: {ref[nm]!r}"))
    expect = {"cusip": "9 8 True True", "sedol": "7 GB00B0YBKJ77", "isin": "5 True False"}
    for nm, want in expect.items():
        if nm in ref and ref[nm] != want:
            out.append((f"known-answer-wrong/{nm}", f"{ref[nm]!r}, expected {want!r}"))
    return out


def _order_worker(orders):
    H.setup_path()
    s = H.Stats()
    for order in orders:
        case = {"kind": "order", "order": list(order)}
        s.case(case, nontrivial=True, labels=["call order in a fresh interpreter"])
        for k, d in order_case(case):
            s.fail(k, case, d)
    return s


def run(ctx):
    import itertools

    ctx.pmap(_order_worker, [[o] for o in itertools.permutations(["cusip", "sedol", "isin"])], ambient=False)
    jobs = []
    if ctx.thorough:
        # all 10^8 digit CUSIP bases, all 10^6 SEDOL digit bases, ISIN: 10^6 per sampled prefix
        for p in range(100):
            jobs.append(("cusip", "%02d" % p, 6, 997))
        for p in range(10):
            jobs.append(("sedol", str(p), 5, 97))
        for pre in _prefixes()[:: max(1, len(_prefixes()) // 16)]:
            jobs.append(("isin", pre + "000", 6, 997))
    else:
        for p in range(16):
            # 16 disjoint 10^5 blocks spread over the space: '00ddddd?' style prefixes
            jobs.append(("cusip", "%03d" % (p * 61 % 1000), 5, 499))
        for p in range(10):
            jobs.append(("sedol", str(p), 5, 499))
        jobs.append(("isin", "US000000", 3, 10))
        jobs.append(("isin", "GB0000", 5, 499))
    ctx.pmap(_enum_worker, jobs)
    if ctx.thorough:
        ctx.note("exhaustive_subspaces", ["CUSIP digits 10^8", "SEDOL digits 10^6", "ISIN 17 prefixes x 10^6 digit stems"])
    else:
        ctx.note("exhaustive_subspaces", ["CUSIP 16 blocks x 10^5 digit bases", "SEDOL digits 10^6", "ISIN US000000ddd, GB0000ddddd"])

    n = ctx.scale(4000, 60000)
    sjobs = []
    for kind in ("garbage", "cusip", "sedol", "isin", "isin-prefix"):
        for sh in range(4):
            sjobs.append((kind, n // 4 if kind not in ("isin-prefix", "garbage") else n // 16, ctx.sub_seed(kind, sh)))
    ctx.pmap(_sample_worker, sjobs)

    # prefixes: all unknown x stems, all known x 36^2 sub-space
    pre = _prefixes()
    known = set(pre)
    unknown = [a + b for a in string.ascii_uppercase for b in string.ascii_uppercase if a + b not in known]
    stems = ["037833100", "000000000", "ZZZZZZZZZ"] if not ctx.thorough else ["037833100", "000000000", "ZZZZZZZZZ", "B0YBKJ7A1", "123456789"]
    pj = [("unknown", unknown[i::8], stems) for i in range(8)]
    pj += [("known", pre[i::8], stems[:1] if not ctx.thorough else stems[:3]) for i in range(8)]
    ctx.pmap(_prefix_worker, pj)
    ctx.note("unknown_prefixes_tried", len(unknown))
    ctx.note("known_prefixes_tried", len(pre))
    ctx.exhaustive = False
