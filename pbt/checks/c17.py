"""C17 - parsing, converting and writing are pure, repeatable and safe to run in threads."""
from __future__ import annotations

import copy
import io
import os
import sys
import threading
import warnings

from hypothesis import strategies as st

from pbt.core import harness as H
from pbt.core import modelgen as M
from pbt.core import docgen as D
from pbt.core import refofx as X
from pbt.core import reftypes as R

PID = "C17"
LEVEL = "exploration"
RULE = (
    "workload items over generated inputs: (wire) build instance -> serialize in a drawn wire form -> parse -> convert; (tree) "
    "harness-built element tree -> from_etree -> to_etree; (held) an instance built before the history whose dump / to_etree is "
    "taken before and after; (type) type conversions incl. DateTime string conversions (which re-register a dispatch handler); "
    "(fail) constraint-violating constructions and mis-nested bodies.  (a) purity: deep snapshots of the source bytes, the "
    "element tree (text/tail/attrib/child identity) and the model before == after every call; (b) history independence: "
    "r0=op(x); run history H (0-6 items, half of them of the probe's own class); r1=op(x); run reversed H; r2=op(x): all "
    "equal by canonical dump; (c) threads: N in 2..16 threads run their own workloads concurrently (switch interval 10us) and "
    "must reproduce the sequential baseline - also with the threads as first users of a class in a fresh interpreter, and with 12-16 "
    "threads all converting complete 8-level statements; (d) every C04 obligation three times in a row, and every violation of a "
    "hand-written rule after a long history against a fresh interpreter; history items include malformed bodies and files not in "
    "their declared character set.  non-trivial = history mixing >=2 kinds incl. one of the probe's class, or a "
    "thread case with N >= 4; distinct by case hash"
)
ASSUMPTIONS = [
    "thread schedules are the interpreter's, not the harness's: the thread part can only refute",
    "results are compared through canonical dumps (models: declared children + members; trees: tag/text/tail/attrib)",
]

from pbt.checks.c01 import FORMS


# ---------------------------------------------------------------------------
def _no_show(*a, **k):
    """Library warnings (unknown tags...) are not an oracle here; keep worker stderr quiet even when another
    thread's catch_warnings() restores the filters mid-flight."""


def tree_snapshot(elem):
    return (elem.tag, elem.text, elem.tail, tuple(sorted(elem.attrib.items())), tuple(id(c) for c in elem), tuple(tree_snapshot(c) for c in elem))


ERRLOG = []


def _bad_key(b):
    if "::" in b:
        return b.split("::")[0]
    return "input-modified/" + b.split(" modified ")[0].replace(" ", "-")


def run_item(item, held=None):
    """-> (result, purity_failures)"""
    H.setup_path()
    from ofxtools.Client import OFXClient
    from ofxtools.Parser import OFXTree, TreeBuilder
    from ofxtools.models.base import Aggregate
    from ofxtools import Types

    kind = item["kind"]
    bad = []
    warnings.simplefilter("ignore")  # process-wide and idempotent: catch_warnings() is not thread-safe
    warnings.showwarning = _no_show
    if True:
        try:
            if kind == "wire":
                inst = M.build(item["inst"])
                d0 = M.dump(inst)
                name, major, close, pretty = FORMS[item["form"] % len(FORMS)]
                data = OFXClient("https://x.invalid", version=102 if major == 1 else 203, prettyprint=pretty, close_elements=close).serialize(inst)
                if M.dump(inst) != d0:
                    bad.append("serialize modified the model instance")
                src = io.BytesIO(data)
                t = OFXTree()
                root = t.parse(src)
                if src.getvalue() != data:
                    bad.append("parse modified the source bytes")
                snap = tree_snapshot(root)
                model = t.convert()
                if tree_snapshot(root) != snap:
                    bad.append("convert modified the parsed element tree")
                return ["wire", data.decode("utf_8", "replace"), M.dump(model)], bad
            if kind == "tree":
                tree = D.to_etree(item["inst"])
                snap = tree_snapshot(tree)
                model = Aggregate.from_etree(tree)
                if tree_snapshot(tree) != snap:
                    bad.append("from_etree modified the element tree")
                d0 = M.dump(model)
                et = model.to_etree()
                et2 = model.to_etree()
                if M.dump(model) != d0:
                    bad.append("to_etree modified the model instance")
                if M.etree_dump(et) != M.etree_dump(et2):
                    bad.append("to_etree is not repeatable")
                return ["tree", d0, M.etree_dump(et)], bad
            if kind == "dirtytree":
                from pbt.checks import c07

                tree = D.to_etree(item["inst"])
                c07.contaminate(tree, item["inst"], item["ins"])
                snap = tree_snapshot(tree)
                model = Aggregate.from_etree(tree)
                if tree_snapshot(tree) != snap:
                    bad.append("from_etree modified the element tree")
                return ["dirtytree", M.dump(model)], bad
            if kind == "introspect":
                cls = M.universe()[item["cls"]]
                for c in reversed(cls.__mro__):
                    for prop in ("spec", "elements", "subaggregates", "listaggregates", "unsupported"):
                        getattr(c, prop, None)
                return ["introspect", list(cls.spec.keys()), list(cls.spec_no_listaggregates.keys())], bad
            if kind == "typewrite":
                T = {"DateTime": Types.DateTime, "Time": Types.Time, "Decimal": Types.Decimal}[item["type"]]()
                return ["typewrite", T.unconvert(M.untag(item["value"]))], bad
            if kind == "type":
                T = {"DateTime": Types.DateTime, "Time": Types.Time, "Decimal": Types.Decimal, "Integer": Types.Integer, "Bool": Types.Bool, "String": Types.String}[item["type"]]()
                v = T.convert(item["text"])
                back = T.unconvert(v)
                return ["type", repr(v), back], bad
            if kind == "fail":
                from pbt.checks import c04

                desc, tree, expect = c04.build_violation(item["ob"])
                if tree is not None:
                    Aggregate.from_etree(tree)
                else:
                    c04._build_raw(desc)
                return ["fail", "accepted"], bad
            if kind == "badbody":
                b = TreeBuilder()
                b.feed(item["text"])
                r = b.close()
                return ["badbody", X.from_etree(r) if r is not None else None], bad
            if kind == "reconvert":
                # one OFXTree, converted twice with an in-place edit of the parsed tree in between: convert() depends on
                # the tree as it is now
                inst = M.build(item["inst"])
                data = OFXClient("https://x.invalid", version=203).serialize(inst)
                t = OFXTree()
                root = t.parse(io.BytesIO(data))
                first = M.dump(t.convert())
                target = [e for e in root.iter() if len(e) == 0 and (e.text or "").strip()]
                if not target:
                    return ["reconvert", "nothing to edit"], bad
                e = target[item["k"] % len(target)]
                old = e.text
                e.text = old  # same text: a no-op edit first
                same = M.dump(t.convert())
                if same != first:
                    bad.append("convert-not-repeatable:: convert() twice on the same tree gave different models")
                parent = {c: p for p in root.iter() for c in p}
                par = parent.get(e)
                if par is None:
                    return ["reconvert", "leaf is the root"], bad
                idx = list(par).index(e)
                par.remove(e)
                try:
                    second = ["ok", M.dump(t.convert())]
                except Exception as ex:
                    second = ["raised", type(ex).__name__]
                try:
                    fresh = ["ok", M.dump(Aggregate.from_etree(root))]
                except Exception as ex:
                    fresh = ["raised", type(ex).__name__]
                if second != fresh:
                    bad.append(f"convert-ignores-edited-tree:: after removing <{e.tag}> from the parsed tree, OFXTree.convert() = {H.canon(second)[:120]} but converting that tree afresh = {H.canon(fresh)[:120]}")
                par.insert(idx, e)
                return ["reconvert", first, fresh], bad
            if kind == "badfile":
                # a complete file whose body is not in the character set its header declares
                t = OFXTree()
                r = t.parse(io.BytesIO(BAD_FILES[item["which"] % len(BAD_FILES)]))
                return ["badfile", X.from_etree(r) if r is not None else None], bad
        except Exception as e:
            if not isinstance(e, (ValueError, TypeError, AttributeError, KeyError, ArithmeticError)) and type(e).__name__ not in ("ParseError", "OFXHeaderError") and len(ERRLOG) < 20:
                import traceback

                # kept for the failure report only (never compared): where an unusual exception came from
                ERRLOG.append(f"{kind}: " + traceback.format_exc()[-700:])
            return ["raised", type(e).__name__], bad
    raise H.HarnessError(item)


def held_state(inst):
    from ofxtools.Client import OFXClient

    warnings.simplefilter("ignore")
    if True:
        plain = OFXClient("https://x.invalid", version=203).serialize(inst)
        state = [M.dump(inst), M.etree_dump(inst.to_etree()), plain.decode("utf_8", "replace")]
        # a pretty-printed and an unclosed serialisation of the same instance must leave no trace
        OFXClient("https://x.invalid", version=203, prettyprint=True).serialize(inst)
        OFXClient("https://x.invalid", version=102, close_elements=False, prettyprint=True).serialize(inst)
        return state


_HISTORY_DONE = {}


def json_roundtrip(x):
    import json

    return json.loads(H.canon(x))


def eval_fresh(item):
    """Result of one item in a brand-new interpreter (no history at all)."""
    import json
    import subprocess

    p = subprocess.run([sys.executable, "-m", "pbt.checks.c17", "--eval"], input=json.dumps(item), capture_output=True, text=True, cwd=str(H.VERIF), timeout=600)
    if p.returncode != 0:
        raise H.HarnessError(f"fresh interpreter failed: {p.stderr[-400:]}")
    return json.loads(p.stdout.strip().splitlines()[-1])


def check_case(case):
    H.setup_path()
    out = []
    if case["kind"] == "history" and case.get("fresh"):
        # the history runs BEFORE the probe is evaluated for the first time in this process; the reference is the
        # probe evaluated in a fresh interpreter
        probe, hist = case["probe"], case["history"]
        for it in hist:
            run_item(it)
        r_in, bad = run_item(probe)
        import json

        r_fresh = eval_fresh(probe)
        if json.loads(H.canon(r_in)) != json.loads(H.canon(r_fresh)):
            out.append((f"result-differs-from-fresh-interpreter/{probe['kind']}", f"{probe.get('inst', {}).get('cls', probe.get('type', probe.get('cls')))}: after history {H.canon(r_in)[:200]} ; fresh {H.canon(r_fresh)[:200]}"))
        return out
    if case["kind"] == "history":
        probe, hist = case["probe"], case["history"]
        inst = None
        if probe["kind"] in ("wire", "tree", "dirtytree"):
            try:
                warnings.simplefilter("ignore")
                inst = M.build(probe["inst"])
                h0 = held_state(inst)
            except Exception:
                inst = None
        r0, bad = run_item(probe)
        for b in bad:
            out.append((_bad_key(b), f"{probe['kind']} {probe.get('inst', {}).get('cls')}: {b}"))
        for it in hist:
            _, bad = run_item(it)
            for b in bad:
                out.append((_bad_key(b), f"{it['kind']}: {b}"))
        r1, _ = run_item(probe)
        for it in reversed(hist):
            run_item(it)
        r2, _ = run_item(probe)
        for _ in range(case.get("repeat", 1)):
            r3, _ = run_item(probe)
        if not (r0 == r1 == r2 == r3):
            which = "after-history" if r0 != r1 else "after-permuted-history" if r1 != r2 else "on-repetition"
            out.append((f"result-depends-on-history/{probe['kind']}", f"{probe.get('inst', {}).get('cls', probe.get('type'))} {which}: {H.canon(r0)[:200]} != {H.canon(r1 if r0 != r1 else r2)[:200]}"))
        if inst is not None and held_state(inst) != h0:
            out.append(("held-instance-changed-by-later-work", f"{probe['inst']['cls']}"))
    elif case["kind"] == "repeat":
        rs = []
        for _ in range(3):
            try:
                rs.append(run_item(case["item"])[0])
            except H.HarnessError:
                return []
        if not (rs[0] == rs[1] == rs[2]):
            ob = case["item"].get("ob", {})
            out.append((f"result-changes-on-repetition/{case['item']['kind']}", f"{ob.get('cls')} {ob.get('kind')} {ob.get('which', ob.get('attr', ''))}: {[H.canon(r)[:60] for r in rs]}"))
    elif case["kind"] == "vs-fresh":
        # replayed alone, the history is re-created first: every obligation of the class, in order
        if case.get("after") and not _HISTORY_DONE.get(case["after"]):
            from pbt.checks import c04

            _HISTORY_DONE[case["after"]] = True
            for ob in c04.obligations(M.universe()[case["after"]]):
                try:
                    run_item({"kind": "fail", "ob": ob})
                except H.HarnessError:
                    pass
        now = json_roundtrip(run_item(case["item"])[0])
        fresh = eval_fresh(case["item"])
        if now != fresh:
            ob = case["item"]["ob"]
            out.append(("result-depends-on-history/fail-custom", f"{ob.get('cls')} {ob.get('which')}: in this process {H.canon(now)[:80]}, in a fresh interpreter {H.canon(fresh)[:80]}"))
    elif case["kind"] == "threads" and case.get("fresh"):
        # the threads are the FIRST users of the classes in a brand-new interpreter (first-use initialisation races),
        # the sequential baseline is computed afterwards in that same interpreter
        import json
        import subprocess

        p = subprocess.run([sys.executable, "-m", "pbt.checks.c17", "--threads"], input=json.dumps(case), capture_output=True, text=True, cwd=str(H.VERIF), timeout=1800)
        if p.returncode != 0:
            raise H.HarnessError(f"fresh thread interpreter failed: {p.stderr[-400:]}")
        res = json.loads(p.stdout.strip().splitlines()[-1])
        for i, (rs, bs) in enumerate(zip(res["results"], res["base"])):
            for j, (r, b) in enumerate(zip(rs, bs)):
                if r != b:
                    out.append((f"thread-result-differs-on-first-use/{case['loads'][i][j]['kind']}", f"thread {i} item {j}: {H.canon(r)[:150]} != sequential {H.canon(b)[:150]}" + (" :: unusual exceptions: " + " || ".join(res.get("errlog", [])[:2]) if res.get("errlog") else "")))
                    break
            if out:
                break
    elif case["kind"] == "threads":
        loads = case["loads"]
        base = [[run_item(it)[0] for it in load] for load in loads]
        results = [None] * len(loads)
        errors = []
        barrier = threading.Barrier(len(loads))

        def worker(i):
            try:
                barrier.wait(timeout=300)
                rs = []
                for rep in range(case.get("rounds", 2)):
                    rs = [run_item(it) for it in loads[i]]
                results[i] = rs
            except Exception as e:  # harness-level
                errors.append(repr(e))

        old = sys.getswitchinterval()
        sys.setswitchinterval(1e-5)
        try:
            ths = [threading.Thread(target=worker, args=(i,)) for i in range(len(loads))]
            for t in ths:
                t.start()
            for t in ths:
                t.join(600)
        finally:
            sys.setswitchinterval(old)
        if errors or any(r is None for r in results):
            raise H.HarnessError(f"thread workload did not finish: {errors[:2]}")
        for i, rs in enumerate(results):
            for j, (r, bad) in enumerate(rs):
                if r != base[i][j]:
                    out.append((f"thread-result-differs/{loads[i][j]['kind']}", f"thread {i} item {j}: {H.canon(r)[:150]} != sequential {H.canon(base[i][j])[:150]}" + (" :: unusual exceptions: " + " || ".join(ERRLOG[-2:]) if ERRLOG else "")))
                for b in bad:
                    out.append(("input-modified-under-threads", b))
            if out:
                break
    else:
        raise H.HarnessError(case)
    seen, res = set(), []
    for k, d in out:
        if k not in seen:
            seen.add(k)
            res.append((k, d))
    return res


# ---------------------------------------------------------------------------
TYPE_TEXTS = [
    ("DateTime", "20200101"), ("DateTime", "20200101120000.123[-5:EST]"), ("DateTime", "19991231235959.999[+5.30:IST]"), ("DateTime", "20200230"),
    ("Time", "235959.500[-8:PST]"), ("Time", "250000"), ("Decimal", "1,50"), ("Decimal", "abc"), ("Integer", "42"), ("Bool", "Y"), ("Bool", "x"), ("String", "a&amp;b"),
    ("DateTime", "20200101120000.000[+8:HKT]"), ("DateTime", "20200101120000.000[-:HKT]"), ("DateTime", "20200101120000.000[-3:HKT]"), ("DateTime", "20200101120000.000[-:EST]"),
    ("DateTime", "20200101120000.000[+1:CET]"), ("DateTime", "20200101120000.000[-:CET]"), ("Time", "120000.000[+9:JST]"), ("Time", "120000.000[-:JST]"), ("DateTime", "20200101120000.000[0:EST]"),
    ("Decimal", "1234567890123456789012345678901234567890.125"), ("Decimal", "-0.00"), ("Decimal", "0.1234567890123456789012345678901234567890"),
]
def _v1(charset, encoding="USASCII"):
    return ("OFXHEADER:100\r\nDATA:OFXSGML\r\nVERSION:102\r\nSECURITY:NONE\r\nENCODING:%s\r\nCHARSET:%s\r\nCOMPRESSION:NONE\r\nOLDFILEUID:NONE\r\nNEWFILEUID:NONE\r\n\r\n" % (encoding, charset)).encode("ascii")


BAD_FILES = [
    _v1("NONE") + b"<OFX><A>caf\xe9 \x93quoted\x94</A></OFX>",  # cp1252 bytes under CHARSET:NONE
    _v1("NONE", "UTF-8") + b"<OFX><A>\xff\xfe</A></OFX>",
    _v1("1252") + b"<OFX><A>\x81\x8d</A></OFX>",  # undefined in cp1252
    _v1("ISO-8859-1") + "<OFX><A>\u6f22</A></OFX>".encode("utf_8"),  # decodes, as something else
    b'<?xml version="1.0" encoding="UTF-8" standalone="no"?>\r\n<?OFX OFXHEADER="200" VERSION="203" SECURITY="NONE" OLDFILEUID="NONE" NEWFILEUID="NONE"?>\r\n<OFX><A>caf\xe9</A></OFX>',
]
BAD_BODIES = ["<A><B>x</B>", "<A><B><C>x</C></A>", "<A></B>", "<A><B>x</B></A>junk", "<A><B>x</B></A>"]


def _placeholders(draw, desc):
    """One instance in six carries filler values in all its strings (0, 000000 - what a bank sends when it has nothing to
    say): whatever a reader makes of fillers, it makes the same of them every time."""
    if draw(st.integers(0, 5)) != 0:
        return desc
    filler = draw(st.sampled_from(["0", "000000", "N", "NONE"]))

    def rec(d):
        for a, v in list(d["kw"].items()):
            if M.is_scalar(v):
                if v[0] == "str":
                    d["kw"][a] = ["str", filler]
            else:
                rec(v)
        for i, m in enumerate(d["list"]):
            if M.is_scalar(m):
                if m[0] == "str":
                    d["list"][i] = ["str", filler]
            else:
                rec(m)

    rec(desc)
    return desc


def item_st(cls_names):
    U = M.universe()

    @st.composite
    def _item(draw, force_cls=None):
        k = draw(st.integers(0, 9))
        name = force_cls or draw(st.sampled_from(cls_names))
        if k <= 3:
            return {"kind": "wire", "inst": _placeholders(draw, draw(M.instance_st(U[name], max_members=2))), "form": draw(st.integers(0, 5))}
        if k <= 5:
            return {"kind": "tree", "inst": _placeholders(draw, draw(M.instance_st(U[name], max_members=2, markup=False)))}
        if k == 6:
            ty, tx = draw(st.sampled_from(TYPE_TEXTS))
            return {"kind": "type", "type": ty, "text": tx}
        if k == 7:
            from pbt.checks import c04

            obs = [o for o in c04.obligations(U[name]) if o["kind"] in ("required-omitted", "foreign-token", "duplicate-child", "swap-children", "two-of-at-most-one", "undeclared-keyword", "string-over-limit", "integer-over-limit", "custom", "required-given-empty")]
            if obs:
                return {"kind": "fail", "ob": obs[draw(st.integers(0, len(obs) - 1))]}
            return {"kind": "type", "type": "DateTime", "text": "20200101"}
        if k == 8:
            if draw(st.integers(0, 2)) == 0:
                return {"kind": "reconvert", "inst": draw(M.instance_st(U[name], max_members=2, markup=False)), "k": draw(st.integers(0, 50))}
            if draw(st.booleans()):
                return {"kind": "introspect", "cls": name}
            if draw(st.booleans()):
                return {"kind": "badfile", "which": draw(st.integers(0, len(BAD_FILES) - 1))}
            return {"kind": "badbody", "text": draw(st.sampled_from(BAD_BODIES))}
        return {"kind": "dirtytree", "inst": draw(M.instance_st(U[name], max_members=2, markup=False)), "ins": draw(st.lists(st.tuples(st.integers(0, 40), st.integers(0, 12), st.integers(0, 4), st.integers(0, 30)).map(list), min_size=1, max_size=3))}

    return _item


@st.composite
def twin_items(draw, names):
    """(probe, predecessor): two items whose inputs compare equal but are written differently."""
    from pbt.checks.c10 import aware_dt, dec_text
    import datetime as dt

    U = M.universe()
    which = draw(st.integers(0, 3))
    if which == 0:
        txt = format(R.decimal_from_text(draw(dec_text(max_int=6, max_frac=3))), "f")
        twin = txt + ("0" if "." in txt else ".0")
        a, b = ["dec", txt], ["dec", twin]
        if draw(st.booleans()):
            a, b = b, a
        return {"kind": "typewrite", "type": "Decimal", "value": a}, {"kind": "typewrite", "type": "Decimal", "value": b}
    if which == 1:
        v = draw(aware_dt())
        a = M.untag(v)
        off2 = draw(st.integers(-720, 840).filter(lambda o: o != v[8]))
        b = a.astimezone(dt.timezone(dt.timedelta(minutes=off2)))
        if not (1900 <= b.year <= 2200):
            off2 = 0 if v[8] else 60
            b = a.astimezone(dt.timezone(dt.timedelta(minutes=off2)))
        w = ["dt", b.year, b.month, b.day, b.hour, b.minute, b.second, b.microsecond, off2, None]
        return {"kind": "typewrite", "type": "DateTime", "value": w}, {"kind": "typewrite", "type": "DateTime", "value": v}
    # whole instances
    name = draw(st.sampled_from(names))
    d = draw(M.instance_st(U[name], max_members=2))
    t, n = M.twin_desc(d)
    form = draw(st.integers(0, 5))
    return {"kind": "wire", "inst": t, "form": form}, {"kind": "wire", "inst": d, "form": form}


def _labels_hist(case):
    kinds = {it["kind"] for it in case["history"]} | {case["probe"]["kind"]}
    labs = ["history-len:%d" % len(case["history"])] + ["kind:" + k for k in sorted(kinds)]
    if case.get("fresh"):
        labs.append("compared with a fresh interpreter")
    if case["probe"]["kind"] == "typewrite" or (case.get("fresh") and case["history"] and case["history"][0].get("kind") == case["probe"]["kind"] == "wire"):
        labs.append("history holds an equal-comparing twin of the probe's values")
    pc = case["probe"].get("inst", {}).get("cls")
    if pc and any(it.get("inst", {}).get("cls") == pc for it in case["history"]):
        labs.append("history contains the probe's class")
    if any(it["kind"] in ("fail", "badbody") for it in case["history"]):
        labs.append("history contains a failing input")
    if any(it["kind"] == "type" and it["type"] in ("DateTime", "Time") for it in case["history"]):
        labs.append("history contains a DateTime string conversion")
    return labs


def _hist_worker(job):
    H.setup_path()
    names, n, seed = job
    s = H.Stats()
    mk = item_st(names)

    @st.composite
    def case(draw):
        scenario = draw(st.integers(0, 9))
        if scenario <= 2:
            # equal-but-distinguishable twins: the history processes a value that compares equal to the probe's
            probe, first = draw(twin_items(names))
            hist = [first] + [draw(mk()) for _ in range(draw(st.integers(0, 2)))]
            return {"kind": "history", "probe": probe, "history": hist, "fresh": True}
        probe = draw(mk())
        pc = probe.get("inst", {}).get("cls") or probe.get("cls")
        hist = []
        for i in range(draw(st.integers(0, 6))):
            hist.append(draw(mk(force_cls=pc if (pc and i % 2 == 0) else None)))
        if pc and scenario == 3:
            # a schema walk over the probe's class hierarchy precedes it
            hist.insert(0, {"kind": "introspect", "cls": pc})
        c = {"kind": "history", "probe": probe, "history": hist, "repeat": draw(st.integers(1, 3))}
        if scenario in (3, 4, 5):
            c["fresh"] = True
        return c

    def body(c):
        labs = _labels_hist(c)
        nontrivial = (len({it["kind"] for it in c["history"]}) >= 2 and "history contains the probe's class" in labs) or bool(c.get("fresh") and c["history"])
        s.case(c, nontrivial=nontrivial, labels=labs)
        for k, d in check_case(c):
            s.fail(k, c, d)

    H.hyp_run(case(), body, n, seed, stats=s)
    return s


DEEP_ROOTS = ["OFX", "INVSTMTMSGSRSV1", "INVSTMTTRNRS", "INVSTMTRS", "BANKMSGSRSV1", "SECLISTMSGSRSV1", "PROFMSGSRSV1", "SIGNUPMSGSRSV1", "BILLPAYMSGSRSV1"]


def deep_statement(serial, nbuy, npos):
    """A complete investment statement response, 8 aggregate levels deep (OFX > INVSTMTMSGSRSV1 > INVSTMTTRNRS > INVSTMTRS >
    INVTRANLIST > BUYSTOCK > INVBUY > INVTRAN), different for every serial."""
    U = M.universe()
    buys = []
    for n in range(nbuy):
        b = M.minimal(U["BUYSTOCK"])
        b["kw"]["invbuy"]["kw"]["invtran"]["kw"]["fitid"] = ["str", "%04d%04d" % (serial, n)]
        b["kw"]["invbuy"]["kw"]["invtran"]["kw"]["memo"] = ["str", "buy %d of thread %d" % (n, serial)]
        buys.append(b)
    tl = M.minimal(U["INVTRANLIST"])
    tl["list"] = buys
    rs = M.minimal(U["INVSTMTRS"])
    rs["kw"]["invtranlist"] = tl
    if npos:
        rs["kw"]["invposlist"] = {"cls": "INVPOSLIST", "kw": {}, "list": [M.minimal(U["POSSTOCK"]) for _ in range(npos)]}
    trn = M.minimal(U["INVSTMTTRNRS"])
    trn["kw"]["invstmtrs"] = rs
    trn["kw"]["trnuid"] = ["str", "T%d" % serial]
    ms = {"cls": "INVSTMTMSGSRSV1", "kw": {}, "list": [trn]}
    return {"cls": "OFX", "kw": {"signonmsgsrsv1": M.minimal(U["SIGNONMSGSRSV1"]), "invstmtmsgsrsv1": ms}, "list": []}


def _thread_worker(job):
    H.setup_path()
    names, n, seed = job
    s = H.Stats()
    mk = item_st(names)

    @st.composite
    def case(draw):
        nthreads = draw(st.sampled_from([2, 4, 8, 16]))
        shared_cls = draw(st.sampled_from(names))
        loads = []
        for i in range(nthreads):
            loads.append([draw(mk(force_cls=shared_cls if j == 0 else None)) for j in range(draw(st.integers(1, 3)))])
        c = {"kind": "threads", "loads": loads, "rounds": 2}
        if draw(st.integers(0, 3)) == 0:
            # heavy variant: 12-16 threads, every one busy converting a large, deeply nested document at the same time
            # (process-wide scratch state - counters, stacks, "current" pointers - only clashes when many conversions
            # are in flight together)
            U = M.universe()
            deep = st.sampled_from([x for x in DEEP_ROOTS if x in U])
            loads = []
            for i in range(draw(st.sampled_from([12, 16]))):
                if draw(st.integers(0, 3)) == 0:
                    inst = draw(deep.flatmap(lambda nm: M.instance_st(U[nm], max_members=3, markup=False, p0=0.9)))
                else:
                    inst = deep_statement(i, draw(st.integers(2, 8)), draw(st.integers(0, 4)))
                loads.append([{"kind": draw(st.sampled_from(["tree", "tree", "wire"])), "inst": inst, "form": draw(st.integers(0, 5))}])
            return {"kind": "threads", "loads": loads, "rounds": 3, "deep": True}
        if draw(st.booleans()):
            # first-use variant: every thread starts with an item of the shared class, in a fresh interpreter
            for load in loads:
                load[0] = draw(mk(force_cls=shared_cls).filter(lambda it: it["kind"] in ("wire", "tree", "dirtytree", "introspect")))
            c["fresh"] = True
        return c

    def body(c):
        s.case(c, nontrivial=len(c["loads"]) >= 4, labels=["threads:%d" % len(c["loads"])] + (["threads are first users in a fresh interpreter"] if c.get("fresh") else []) + (["all threads convert deep documents"] if c.get("deep") else []))
        for k, d in check_case(c):
            s.fail(k, c, d)

    H.hyp_run(case(), body, n, seed, stats=s)
    return s


def _repeat_worker(names):
    """Every way of failing (C04's obligations: required child omitted, group violated, custom rule broken, ...) and the
    undamaged minimal instance, three times in a row: the outcome of a conversion does not depend on how often it was asked."""
    H.setup_path()
    from pbt.checks import c04

    s = H.Stats()
    U = M.universe()
    for name in names:
        for ob in c04.obligations(U[name]):
            item = {"kind": "fail", "ob": ob}
            case = {"kind": "repeat", "item": item}
            s.case(case, nontrivial=True, labels=["repetition of a failing conversion: " + ob["kind"]])
            for k, d in check_case(case):
                s.fail(k, case, d)
    # hand-written rules (validate_args) are where module-level scratch state can hide: each of their violations is
    # evaluated once more now - after everything above has run in this process - and in a brand-new interpreter
    for name in names:
        _HISTORY_DONE[name] = True
        for ob in c04.obligations(U[name]):
            if ob["kind"] != "custom":
                continue
            case = {"kind": "vs-fresh", "item": {"kind": "fail", "ob": ob}, "after": name}
            s.case(case, nontrivial=True, labels=["hand-written rule: after a long history vs. fresh interpreter"])
            for k, d in check_case(case):
                s.fail(k, case, d)
    return s


def run(ctx):
    names = sorted(M.universe())
    ctx.pmap(_repeat_worker, [names[i::16] for i in range(16)])
    nh = ctx.scale(60, 600)
    ctx.pmap(_hist_worker, [(names[i::16], nh, ctx.sub_seed("h", i)) for i in range(16)])
    nt = ctx.scale(8, 80)
    ctx.pmap(_thread_worker, [(names[i::16], nt, ctx.sub_seed("t", i)) for i in range(16)])


def _threads_fresh_main():
    import json

    H.setup_path()
    case = json.loads(sys.stdin.read())
    loads = case["loads"]
    warnings.simplefilter("ignore")
    warnings.showwarning = _no_show
    # Modules are imported, and the harness's own class index is built, before the threads start: concurrent *imports*
    # are Python's business (a thread can be handed a partially initialised module, and iterating its namespace then
    # fails with "dictionary changed size during iteration") - the first *use* of the classes is what the threads race on.
    # Neither step reads a class-level table of the library.
    import ofxtools.Client, ofxtools.Parser, ofxtools.Types, ofxtools.models.base, ofxtools.header, ofxtools.utils  # noqa: F401,E401
    from pbt.checks import c04  # noqa: F401

    M.universe()
    M.all_classes_including_bases()
    results = [None] * len(loads)
    barrier = threading.Barrier(len(loads))

    def worker(i):
        barrier.wait(timeout=300)
        results[i] = [json.loads(H.canon(run_item(it)[0])) for it in loads[i]]

    sys.setswitchinterval(1e-6)
    ths = [threading.Thread(target=worker, args=(i,)) for i in range(len(loads))]
    for t in ths:
        t.start()
    for t in ths:
        t.join(900)
    sys.setswitchinterval(0.005)
    base = [[json.loads(H.canon(run_item(it)[0])) for it in load] for load in loads]
    print(json.dumps({"results": results, "base": base, "errlog": ERRLOG}))


if __name__ == "__main__":
    if "--threads" in sys.argv:
        _threads_fresh_main()
    elif "--eval" in sys.argv:
        import json

        H.setup_path()
        item = json.loads(sys.stdin.read())
        res, _ = run_item(item)
        print(H.canon(res))
