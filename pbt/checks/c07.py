"""C07 - unknown and vendor-specific tags never change or break the converted result."""
from __future__ import annotations

import copy
import re
import io
import warnings
import xml.etree.ElementTree as ET

from hypothesis import strategies as st

from pbt.core import harness as H
from pbt.core import modelgen as M
from pbt.core import docgen as D
from pbt.core import refofx as X

PID = "C07"
LEVEL = "exploration"
RULE = (
    "valid instance description of any class -> harness-built element tree; 1-5 foreign nodes inserted at arbitrary child "
    "positions of arbitrary aggregates (before the first child, between list members, after the last, inside empty aggregates): "
    "unknown data element, unknown empty element, unknown aggregate with generated content incl. complete subtrees of known "
    "classes, vendor-prefixed element / aggregate (INTU.BID, X.ACCTID, A.B.C), names that are other classes' tags (the root's "
    "own tag OFX among them), unknown / vendor aggregates nested 24 levels deep, complete valid aggregates of other classes; plus "
    "deterministic sweeps: well-known vendor elements first/last in every class, long lists (260/600 members), and whole "
    "documents converted from <OFX> with every transaction wrapper misplaced in every other message set; delivered "
    "as element tree to Aggregate.from_etree and as XML and SGML text through OFXTree.parse().convert().  Oracle (metamorphic): "
    "conversion succeeds and equals the conversion of the uncontaminated document (which equals the source instance); the "
    "input tree is unchanged.  non-trivial = >=1 insertion not at the end of its parent, or an inserted aggregate, or a "
    "vendor-prefixed node; distinct by case hash"
)
ASSUMPTIONS = [
    "unknown tag = upper-case name that is neither an attribute name nor an OFX tag of the enclosing class",
    "unknown empty elements are rendered with an end tag in SGML (an unclosed empty element is indistinguishable from an aggregate start)",
    "warnings are recorded, never an oracle",
]

UNKNOWN_LEAF = ["ZZUNKNOWN", "NOTATAG", "X1", "FOO_BAR", "MEMO2", "COUNT", "INDEX", "SPEC", "SORT", "APPEND", "ELEMENTS", "CURSYM", "CURRATE", "ORG", "FID", "STATEMENTS"]
VENDOR_LEAF = ["INTU.BID", "X.ACCTID", "A.B.C", "INTU.USERID", "Q.1"]
VENDOR_AGG = ["INTU.XYZ", "A.B", "VENDOR.AGG", "INTU." + "X" * 27, "V." + "LONGVENDORAGGREGATENAME" * 2]
UNKNOWN_AGG = ["ZZAGG", "NOTANAGG", "XTRA", "Z" * 31, "Z" * 32, "Z" * 33, "ZZ_A_RATHER_LONG_UNKNOWN_AGGREGATE_NAME_OF_50_CHARS"]
OTHER_CLASS_TAGS = ["STATUS", "BAL", "CURRENCY", "SONRQ", "STMTTRN", "FI", "INVPOS", "SECID", "OFX", "OFX", "NAME", "MEMO", "BALAMT", "TRNUID", "DTPOSTED", "CHECKNUM"]
OTHER_LEAF_TAGS = ["TRNUID", "CODE", "ACCTID", "DTSERVER", "SEVERITY", "OFX"]
DEEP = 24  # nesting depth of the "deep" foreign aggregate (the deepest path of the OFX schema itself is about a dozen levels)


def declared_names(cls):
    names = set()
    for attr, kind, t in M.decl(cls):
        names.add(attr.upper())
        names.add(M.tag_of(cls, attr))
    return names


def foreign_node(kind, k, enclosing_cls):
    """-> (Element, label) or None if the name is declared by the enclosing class."""
    U = M.universe()
    known = declared_names(enclosing_cls) if enclosing_cls is not None else set()

    def pick(pool):
        for i in range(len(pool)):
            nm = pool[(k + i) % len(pool)]
            if nm not in known:
                return nm
        return None

    if kind == 0:
        nm = pick(UNKNOWN_LEAF + OTHER_LEAF_TAGS)
        if nm is None:
            return None
        e = ET.Element(nm)
        e.text = ["x", "12.5", "a &amp; b", "20200101"][k % 4]
        return e, "unknown-leaf"
    if kind == 1:
        nm = pick(UNKNOWN_LEAF)
        return (ET.Element(nm), "unknown-empty") if nm else None
    if kind == 2:
        nm = pick(UNKNOWN_AGG + OTHER_CLASS_TAGS)
        if nm is None:
            return None
        e = ET.Element(nm)
        # content: known subtrees and unknown leaves
        sub = D.to_etree(M.minimal(U[["STATUS", "BAL", "FI", "SECID"][k % 4]]))
        e.append(sub)
        ET.SubElement(e, "ZZINNER").text = "y"
        if k % 3 == 0:
            e.append(D.to_etree(M.minimal(U["STMTTRN"])))
        return e, "unknown-aggregate"
    if kind == 3:
        nm = VENDOR_LEAF[k % len(VENDOR_LEAF)]
        e = ET.Element(nm)
        e.text = "v"
        return e, "vendor-leaf"
    if kind == 4:
        nm = VENDOR_AGG[k % len(VENDOR_AGG)]
        e = ET.Element(nm)
        ET.SubElement(e, "INTU.A").text = "1"
        e.append(D.to_etree(M.minimal(U["STATUS"])))
        return e, "vendor-aggregate"
    if kind == 6:
        # a complete, valid aggregate of another class where the enclosing class has no place for it
        cands = ["CCSTMTTRNRS", "STMTTRNRS", "INVSTMTTRNRS", "CCSTMTENDTRNRS", "SECLIST", "STATUS", "STMTTRN", "BANKACCTFROM", "SONRS", "PROFTRNRS"]
        nm = None
        for i in range(len(cands)):
            c = cands[(k + i) % len(cands)]
            if c not in known and c in U:
                nm = c
                break
        if nm is None:
            return None
        return D.to_etree(M.minimal(U[nm])), "foreign-complete-aggregate"
    if kind == 5:
        # an unknown / vendor aggregate may be nested as deeply as its author likes
        nm = pick(UNKNOWN_AGG) if k % 2 else VENDOR_AGG[k % len(VENDOR_AGG)]
        if nm is None:
            return None
        e = ET.Element(nm)
        cur = e
        for i in range(DEEP):
            cur = ET.SubElement(cur, "ZZL%d" % i if k % 2 else "INTU.L%d" % i)
        ET.SubElement(cur, "ZZLEAF").text = "x"
        ET.SubElement(e, "ZZTAIL").text = "y"
        return e, "deep-unknown-aggregate"
    raise H.HarnessError(kind)


def aggregates_with_class(tree, desc):
    """[(element, class)] for every aggregate element of a harness-built tree (walk description and tree together)."""
    out = []

    def rec(elem, d):
        cls = M.universe()[d["cls"]]
        out.append((elem, cls))
        kids = list(elem)
        order = D.child_order(cls, d)
        if len(order) != len(kids):
            raise H.HarnessError("tree/description mismatch")
        for (what, key), child in zip(order, kids):
            v = d["kw"][key] if what == "kw" else d["list"][key]
            if not M.is_scalar(v):
                rec(child, v)

    rec(tree, desc)
    return out


def contaminate(tree, desc, ins):
    """Apply insertions; -> labels, flags"""
    targets = aggregates_with_class(tree, desc)
    labels = []
    not_at_end = False
    for a, pos, kind, k in ins:
        elem, cls = targets[a % len(targets)]
        fn = foreign_node(kind, k, cls)
        if fn is None:
            continue
        node, lab = fn
        if len(node) and len(elem):
            # an unknown / vendor aggregate may contain anything - also a copy of one of the enclosing aggregate's own
            # children: if the wrapper were lost, the copy would surface as a duplicate or an extra list member
            node.append(copy.deepcopy(elem[k % len(elem)]))
            lab += "/with-copy-of-sibling"
        p = pos % (len(elem) + 1)
        if p < len(elem):
            not_at_end = True
        if len(elem) == 0:
            lab += "/inside-empty-aggregate"
        elem.insert(p, node)
        labels.append(lab)
    return labels, not_at_end


def et_to_node(elem, sgml, counter):
    """ET element -> refofx node (SGML: data-element end tags omitted pseudo-randomly)."""
    if len(elem) == 0 and elem.text:
        counter[0] += 1
        from pbt.core import reftypes as R

        # element text of harness-built trees is already escaped (parser-like)
        return {"t": elem.tag, "d": elem.text, "end": not (sgml and counter[0] % 2 == 0), "ga": "\n" if counter[0] % 3 == 0 else ""}
    return {"t": elem.tag, "c": [et_to_node(c, sgml, counter) for c in elem], "g": "", "ga": "\n" if len(elem) else ""}


def convert_via(route, tree):
    from ofxtools.models.base import Aggregate
    from ofxtools.Parser import OFXTree

    if route == "etree":
        return Aggregate.from_etree(tree)
    sgml = route == "sgml"
    from pbt.checks.c02 import disambiguate

    body = X.render(disambiguate(et_to_node(tree, sgml, [0])))
    data = D.file_bytes(body, sgml)
    t = OFXTree()
    t.parse(io.BytesIO(data))
    return t.convert()


def check_case(case):
    H.setup_path()
    if case.get("kind") == "sweep":
        return check_sweep(case)
    if case.get("kind") == "misplaced":
        return check_misplaced(case)
    if case.get("kind") == "long":
        cls = M.universe()[case["cls"]]
        mt = sorted(M.member_types(cls).items())
        le = M.list_elem(cls)
        desc = M.minimal(cls, with_member=(M.minimal_scalar(le[1]) if le else mt[case["which"]][1].__name__))
        desc["list"] = [copy.deepcopy(desc["list"][0]) for _ in range(case["n"])]
        return [(k + "/long-list", d) for k, d in check_case({"inst": desc, "ins": case["ins"], "routes": case["routes"]})]
    desc = case["inst"]
    out = []
    with warnings.catch_warnings():
        warnings.simplefilter("ignore")
        clean = D.to_etree(desc)
        dirty = copy.deepcopy(clean)
        labels, _ = contaminate(dirty, desc, case["ins"])
        if not labels:
            return []
        kinds = "+".join(sorted(set(l.split("/")[0] for l in labels)))  # root-cause key: kinds of insertion
        for route in case.get("routes", ["etree", "xml", "sgml"]):
            try:
                base = convert_via(route, clean)
            except Exception as e:
                # the uncontaminated document must convert - if not, that is C01/C03 business, not C07
                return [("uncontaminated-document-rejected", f"{desc['cls']} via {route}: {e!r}")] if case.get("strict") else []
            before = M.etree_dump(dirty)
            try:
                got = convert_via(route, dirty)
            except Exception as e:
                out.append((f"rejected/{kinds}/{route}", f"{desc['cls']} ins={case['ins']}: {e!r}"))
                continue
            if M.etree_dump(dirty) != before:
                out.append((f"input-tree-modified/{route}", f"{desc['cls']} ins={case['ins']}"))
            df = M.model_diff(base, got)
            if df:
                out.append((f"changed/{kinds}/{route}", f"{desc['cls']} ins={case['ins']}: {df[:3]}"))
    return out


def _worker(job):
    H.setup_path()
    names, n, seed = job
    s = H.Stats()
    U = M.universe()
    for name in names:
        cls = U[name]
        strat = st.builds(
            lambda d, ins: {"inst": d, "ins": ins},
            M.instance_st(cls, markup=True),
            st.lists(st.tuples(st.integers(0, 40), st.integers(0, 12), st.integers(0, 6), st.integers(0, 30)).map(list), min_size=1, max_size=5),
        )

        def body(case):
            with warnings.catch_warnings():
                warnings.simplefilter("ignore")
                tree = D.to_etree(case["inst"])
                labels, not_at_end = contaminate(tree, case["inst"], case["ins"])
            nontrivial = bool(labels) and (not_at_end or any(("aggregate" in l.split("/")[0]) or l.startswith("vendor") for l in labels))
            s.case(case, nontrivial=nontrivial, labels=sorted(set(labels)) + (["insertion not at end"] if not_at_end else []))
            s.label("deliveries", 3)
            for k, d in check_case(case):
                s.fail(k, case, d)

        H.hyp_run(strat, body, n, H.derive_seed(seed, name), stats=s)
        s.label("classes covered")
    return s


def _vendor_sweep_worker(names):
    """Every class once, deterministically: the well-known vendor elements (and one unknown element) as first and as last
    child of the class's own aggregate, element-tree route."""
    H.setup_path()
    s = H.Stats()
    U = M.universe()
    for name in names:
        try:
            with warnings.catch_warnings():
                warnings.simplefilter("ignore")
                desc = M.minimal(U[name])
                M.build(desc)
        except Exception:
            continue
        for tag in ("INTU.BID", "INTU.USERID", "INTU.BROKERID", "ZZUNKNOWN", "COUNT", "INDEX", "SPEC", "CURSYM", "ORG", "STATEMENTS"):
            if tag in declared_names(U[name]):
                continue
            for where in ("first", "last"):
                case = {"kind": "sweep", "cls": name, "tag": tag, "where": where}
                s.case(case, nontrivial=True, labels=["vendor-element sweep"])
                for k, d in check_case(case):
                    s.fail(k, case, d)
    return s


def check_sweep(case):
    from ofxtools.models.base import Aggregate

    cls = M.universe()[case["cls"]]
    out = []
    with warnings.catch_warnings():
        warnings.simplefilter("ignore")
        desc = M.minimal(cls)
        clean = D.to_etree(desc)
        dirty = copy.deepcopy(clean)
        e = ET.Element(case["tag"])
        e.text = "12345"
        dirty.insert(0 if case["where"] == "first" else len(dirty), e)
        try:
            base = Aggregate.from_etree(clean)
        except Exception:
            return []
        try:
            got = Aggregate.from_etree(dirty)
        except Exception as ex:
            return [(f"rejected/vendor-leaf-sweep/{case['where']}", f"{case['cls']} with <{case['tag']}> as {case['where']} child: {ex!r}")]
        df = M.model_diff(base, got)
        if df or M.etree_dump(got.to_etree()) != M.etree_dump(base.to_etree()):
            out.append((f"changed/vendor-leaf-sweep/{case['where']}", f"{case['cls']} with <{case['tag']}> as {case['where']} child: {df[:2]} / written tree differs"))
    return out


def message_sets():
    U = M.universe()
    return sorted(n for n in U if re.fullmatch(r"[A-Z0-9]+MSGSR[QS]V1", n) and not n.startswith("SIGNONMSGS"))


def wrappers():
    U = M.universe()
    return sorted(n for n in U if re.fullmatch(r"[A-Z0-9]+TRNR[QS]", n))


def _misplaced_doc(ms, host):
    """Description of a whole document: <OFX> with a signon message set and the message set `ms` (host 0: empty,
    host 1: with one member of its own)."""
    U = M.universe()
    d = ms[-3]  # Q / S
    mt = sorted(M.member_types(U[ms]).items())
    inner = M.minimal(U[ms], with_member=mt[0][1].__name__) if (host and mt) else M.minimal(U[ms])
    return {"cls": "OFX", "kw": {"signonmsgsr%sv1" % d.lower(): M.minimal(U["SIGNONMSGSR%sV1" % d]), ms.lower(): inner}, "list": []}


def check_misplaced(case):
    """A whole document converted from its <OFX> root; inside one message set a complete, valid transaction wrapper that
    belongs to another message set (a server that files card statements under the bank message set, ...).  The message
    set declares no such member: it is unknown content there and is skipped like any other."""
    U = M.universe()
    out = []
    with warnings.catch_warnings():
        warnings.simplefilter("ignore")
        desc = _misplaced_doc(case["ms"], case["host"])
        clean = D.to_etree(desc)
        dirty = copy.deepcopy(clean)
        host = dirty.find(case["ms"])
        node = D.to_etree(M.minimal(U[case["wrapper"]]))
        host.insert(0 if case["where"] == "first" else len(host), node)
        what = f"<{case['wrapper']}> as {case['where']} child of <{case['ms']}> (host variant {case['host']}) via {case['route']}"
        try:
            base = convert_via(case["route"], clean)
        except Exception:
            return []
        try:
            got = convert_via(case["route"], dirty)
        except Exception as ex:
            return [(f"rejected/misplaced-wrapper/{case['route']}", f"{what}: {ex!r}")]
        df = M.model_diff(base, got)
        if df or M.etree_dump(got.to_etree()) != M.etree_dump(base.to_etree()):
            out.append((f"changed/misplaced-wrapper/{case['route']}", f"{what}: {df[:2]} / written tree differs"))
    return out


def _misplaced_worker(mss):
    H.setup_path()
    s = H.Stats()
    U = M.universe()
    wr = wrappers()
    for ms in mss:
        own = {t.__name__ for t in M.member_types(U[ms]).values()}
        for host in (0, 1):
            for i, w in enumerate(wr):
                if w in own or w in declared_names(U[ms]):
                    continue
                for j, where in enumerate(("first", "last")):
                    route = ("etree", "xml", "etree", "sgml")[(i + 2 * j + host) % 4]
                    case = {"kind": "misplaced", "ms": ms, "wrapper": w, "where": where, "host": host, "route": route}
                    s.case(case, nontrivial=True, labels=["misplaced wrapper in a whole document", "route " + route])
                    for k, d in check_case(case):
                        s.fail(k, case, d)
    return s


def _long_worker(names):
    """Aggregates with hundreds of list members (a year of transactions, a large security list): insertions directly inside
    the long list and inside one of its members."""
    H.setup_path()
    s = H.Stats()
    U = M.universe()
    for name in names:
        cls = U[name]
        mt = sorted(M.member_types(cls).items())
        le = M.list_elem(cls)
        if not mt and not le:
            continue
        for n, which in ((260, 0), (600, len(mt) - 1 if mt else 0)):
            if n == 600 and name not in ("BANKTRANLIST", "INVTRANLIST", "SECLIST", "INVPOSLIST"):
                continue
            try:
                with warnings.catch_warnings():
                    warnings.simplefilter("ignore")
                    desc = M.minimal(cls, with_member=(M.minimal_scalar(le[1]) if le else mt[which][1].__name__))
                    if not desc["list"]:
                        continue
                    desc["list"] = [copy.deepcopy(desc["list"][0]) for _ in range(n)]
                    M.build(desc)
            except Exception:
                continue  # the class does not take that many members (ACCTINFO: one per kind)
            for ins in ([[0, n // 2, 0, 1], [0, 3, 2, 4]], [[0, n // 3, 1, 2], [1, 0, 0, 5], [0, n, 4, 1]]):
                case = {"inst": desc, "ins": ins, "routes": ["etree", "sgml"] if n < 500 else ["xml"]}
                s.case({"cls": name, "members": n, "ins": ins}, nontrivial=True, labels=["long list (%d members)" % n])
                for k, d in check_case(case):
                    s.fail(k + "/long-list", {"kind": "long", "cls": name, "n": n, "which": which, "ins": ins, "routes": case["routes"]}, d)
    return s


def run(ctx):
    names = sorted(M.universe())
    listy = [n for n in names if M.has_list(M.universe()[n])]
    ctx.pmap(_long_worker, [listy[i::16] for i in range(16)])
    ctx.pmap(_vendor_sweep_worker, [names[i::16] for i in range(16)])
    mss = message_sets()
    ctx.pmap(_misplaced_worker, [mss[i::16] for i in range(16)])
    n = ctx.scale(8, 120)
    ctx.pmap(_worker, [(names[i::48], n, ctx.sub_seed("cls")) for i in range(48)])
