"""C12 - headers round-trip for every supported version; invalid headers are refused."""
from __future__ import annotations

import io
import re

from hypothesis import strategies as st

from pbt.core import harness as H

PID = "C12"
LEVEL = "exploration"
RULE = (
    "enumerated: versions {102,103,151,160,200,201,202,203,210,211,220} + all 100-199 x SECURITY {None,NONE,TYPE1} x UID "
    "pairs (fixed boundary set in the table; Hypothesis-sampled over [A-Za-z0-9_-]{1,36}); per valid header text every "
    "single-field corruption (unknown token, wrong OFXHEADER, non-numeric / over-long / unsupported VERSION, 37-char UID), "
    "omission of each mandatory field and transposition of each adjacent field pair; make_header over 0..999, numeric "
    "strings and non-numeric text.  non-trivial = corrupted / refused case or non-default security or UIDs; distinct by case hash"
)
ASSUMPTIONS = [
    "refused = raises OFXHeaderError (the header error) and returns nothing",
    "not asserted: omission of COMPRESSION (optional in the pattern), corruption of the XML declaration, non-ASCII header bytes",
    "not asserted: a flat (v1) header text whose VERSION is numeric with at most three digits but outside 100-199 (000, 099, 220): the v1 header class declares 'three digits' and the statement speaks of 'all three-digit v1 versions'",
]

V1_SUPPORTED = [102, 103, 151, 160]
V2_SUPPORTED = [200, 201, 202, 203, 210, 211, 220]
_HEX = st.text("0123456789abcdefABCDEF", min_size=32, max_size=32)
UID = st.one_of(
    st.text("ABCDEFGHIJKLMNOPQRSTUVWXYZabcdefghijklmnopqrstuvwxyz0123456789_-", min_size=1, max_size=36),
    st.text("ABCDEFGHIJKLMNOPQRSTUVWXYZabcdefghijklmnopqrstuvwxyz0123456789_-", min_size=1, max_size=36),
    _HEX.map(lambda h: f"{h[:8]}-{h[8:12]}-{h[12:16]}-{h[16:20]}-{h[20:]}"),
    _HEX,
    st.sampled_from(["null", "NULL", "None", "none", "nil", "0", "false", "N", "NaN", "-", "_"]),
)
BODY = "<OFX><A>1</A></OFX>"

V1_FIELDS = ["OFXHEADER", "DATA", "VERSION", "SECURITY", "ENCODING", "CHARSET", "COMPRESSION", "OLDFILEUID", "NEWFILEUID"]
V2_FIELDS = ["OFXHEADER", "VERSION", "SECURITY", "OLDFILEUID", "NEWFILEUID"]


def v1_text(vals, order=None, omit=None):
    order = order or V1_FIELDS
    return "".join(f"{k}:{vals[k]}\r\n" for k in order if k != omit) + "\r\n"


def v2_text(vals, order=None, omit=None):
    order = order or V2_FIELDS
    attrs = " ".join(f'{k}="{vals[k]}"' for k in order if k != omit)
    return '<?xml version="1.0" encoding="UTF-8" standalone="no"?>\r\n<?OFX ' + attrs + "?>\r\n"


def expected_vals(version, security, old, new):
    if version // 100 == 1:
        return {"OFXHEADER": "100", "DATA": "OFXSGML", "VERSION": str(version), "SECURITY": security or "NONE", "ENCODING": "USASCII", "CHARSET": "NONE", "COMPRESSION": "NONE", "OLDFILEUID": old or "NONE", "NEWFILEUID": new or "NONE"}
    return {"OFXHEADER": "200", "VERSION": str(version), "SECURITY": security or "NONE", "OLDFILEUID": old or "NONE", "NEWFILEUID": new or "NONE"}


def header_fields(h, fields):
    return {k: str(getattr(h, k.lower())) for k in fields}


def own_read_v1(text):
    m = re.fullmatch(r"((?:[A-Z]+:[^\r\n]*\r\n){9})\r\n", text)
    if not m:
        return None
    pairs = [ln.split(":", 1) for ln in m.group(1).split("\r\n") if ln]
    if [p[0] for p in pairs] != V1_FIELDS:
        return None
    return dict(pairs)


def own_read_v2(text):
    m = re.fullmatch(r'<\?xml version="1\.0" encoding="UTF-8" standalone="no"\?>\r\n<\?OFX ((?:[A-Z]+="[^"]*" ?){5})\?>\r\n', text)
    if not m:
        return None
    pairs = re.findall(r'([A-Z]+)="([^"]*)"', m.group(1))
    if [p[0] for p in pairs] != V2_FIELDS:
        return None
    return dict(pairs)


def corruptions(kind, vals):
    """-> list of (name, text) that must be refused."""
    out = []
    fields = V1_FIELDS if kind == 1 else V2_FIELDS
    mk = v1_text if kind == 1 else v2_text
    bad = {
        "OFXHEADER": ["200" if kind == 1 else "100", "101", "1000", "0", "000", "1" * 5000, "1_00" if kind == 1 else "2_00", "_100"],
        "VERSION": (["1020", "10200", "1x2", "abc", "", "9" * 5000, "1_02", "1_0_2"] if kind == 1 else ["204", "199", "2000", "221", "abc", "300", "", "000", "9" * 5000, "2_03", "2_1_1"]),
        # junk, case variants, and tokens that are valid in *another* field or in a model enumeration
        "SECURITY": ["TYPE2", "none", "Type1", "X", "OFXSGML", "USASCII", "1252", "INFO"],
        "OLDFILEUID": ["u" * 37],
        "NEWFILEUID": ["N" * 37, "a-b_" * 10],
    }
    if kind == 1:
        bad.update({"DATA": ["OFXXML", "SGML", "XML", "NONE", "TYPE1", "USASCII"], "ENCODING": ["UTF-16", "ASCII", "USASCII1", "1252", "NONE", "OFXSGML", "ISO-8859-1"],
                    "CHARSET": ["8859-1", "UTF-8", "1251", "ISO-8859-2", "USASCII", "UNICODE", "TYPE1", "OFXSGML"], "COMPRESSION": ["GZIP", "ZIP", "TYPE1", "USASCII", "OFXSGML"]})
    for f, alts in bad.items():
        for a in alts:
            out.append((f"bad-{f}", mk(dict(vals, **{f: a}))))
    for f in fields:
        if f == "COMPRESSION":
            continue
        out.append((f"omit-{f}", mk(vals, omit=f)))
    for i in range(len(fields) - 1):
        order = list(fields)
        order[i], order[i + 1] = order[i + 1], order[i]
        out.append((f"swap-{fields[i]}-{fields[i + 1]}", mk(vals, order=order)))
    return out


def check_case(case):
    H.setup_path()
    from ofxtools import header as hdr

    E = hdr.OFXHeaderError
    out = []
    kind = case["kind"]
    if kind == "roundtrip":
        v, sec, old, new = case["version"], case.get("security"), case.get("old"), case.get("new")
        ver_arg = str(v) if case.get("as_str") else v
        try:
            h = hdr.make_header(ver_arg, security=sec, oldfileuid=old, newfileuid=new)
        except Exception as e:
            return [("valid-header-refused", f"make_header({ver_arg!r},{sec!r},{old!r},{new!r}) raised {e!r}")]
        text = str(h)
        want = expected_vals(v, sec, old, new)
        major = v // 100
        mine = own_read_v1(text) if major == 1 else own_read_v2(text)
        if mine is None:
            return [("wrong-kind-of-header-text", f"version {v}: {text!r}")]
        if mine != want:
            out.append(("header-text-wrong-fields", f"version {v}: wrote {mine}, expected {want}"))
        cls = hdr.OFXHeaderV1 if major == 1 else hdr.OFXHeaderV2
        if type(h) is not cls:
            out.append(("wrong-header-class", f"{v}: {type(h).__name__}"))
        try:
            h2, body = hdr.parse_header(io.BytesIO((text + BODY).encode("ascii")))
        except Exception as e:
            return out + [("own-header-text-rejected", f"{text!r}: {e!r}")]
        fields = V1_FIELDS if major == 1 else V2_FIELDS
        if type(h2) is not cls or header_fields(h2, fields) != want:
            out.append(("parsed-fields-differ", f"{text!r} -> {header_fields(h2, fields)}, expected {want}"))
        if body != BODY:
            out.append(("body-differs", f"{text!r} -> body {body!r}"))
        # byte-level corruption: a byte that is no text in any tolerated encoding of the header, inside a field value -
        # the field is then outside its domain whatever the decoder makes of it; any refusal will do (this is not
        # "header text" any more), but no header object may come out
        good = (text + BODY).encode("ascii")
        for fld in ("SECURITY", "VERSION", "OFXHEADER"):
            val = want[fld].encode("ascii")
            marker = (fld.encode("ascii") + (b":" if major == 1 else b'="')) + val
            at = good.find(marker)
            if at < 0:
                continue
            pos = at + len(marker) - len(val) + max(1, len(val) // 2)
            for junk in (b"\xe9", b"\xff", b"\x92", b"\xc3"):
                data = good[:pos] + junk + good[pos:]
                try:
                    r = hdr.parse_header(io.BytesIO(data))
                    out.append((f"corrupt-header-accepted/undecodable-byte-in-{fld}", f"{data[:200]!r} -> {header_fields(r[0], fields)}"))
                    break
                except Exception:
                    pass
        for name, bad in corruptions(major, want):
            if len(bad) < 2000:
                # the reader users call: a file with such a header yields no parsed document either
                try:
                    from ofxtools.Parser import OFXTree

                    t = OFXTree()
                    t.parse(io.BytesIO((bad + BODY).encode("ascii")))
                    out.append((f"corrupt-header-accepted-by-OFXTree/{name}", f"{bad!r} -> header {getattr(t, 'header', None)!r}"))
                except Exception:
                    pass
            try:
                r = hdr.parse_header(io.BytesIO((bad + BODY).encode("ascii")))
                out.append((f"corrupt-header-accepted/{name}", f"{bad!r} -> {header_fields(r[0], fields)}"))
            except E:
                pass
            except Exception as e:
                out.append((f"corrupt-header-wrong-error/{name}", f"{bad!r} -> {e!r}"))
    elif kind == "v1-variant":
        # a valid v1 header text with non-default ENCODING / CHARSET (make_header never writes these): parses to equal
        # fields, and every corruption of it is refused
        want = dict(expected_vals(case["version"], case.get("security"), case.get("old"), case.get("new")), ENCODING=case["encoding"], CHARSET=case["charset"])
        text = v1_text(want)
        try:
            h2, body = hdr.parse_header(io.BytesIO((text + BODY).encode("ascii")))
        except Exception as e:
            return [("valid-header-text-rejected", f"{text!r}: {e!r}")]
        if header_fields(h2, V1_FIELDS) != want:
            out.append(("parsed-fields-differ", f"{text!r} -> {header_fields(h2, V1_FIELDS)}, expected {want}"))
        if body != BODY:
            out.append(("body-differs", f"{text!r} -> body {body!r}"))
        try:
            h3 = hdr.OFXHeaderV1(version=case["version"], security=case.get("security"), encoding=case["encoding"], charset=case["charset"], oldfileuid=case.get("old"), newfileuid=case.get("new"))
            if header_fields(h3, V1_FIELDS) != want or own_read_v1(str(h3)) != want:
                out.append(("constructed-fields-differ", f"{want} -> {header_fields(h3, V1_FIELDS)} / {str(h3)!r}"))
        except Exception as e:
            out.append(("valid-constructor-args-refused", f"{want}: {e!r}"))
        for name, bad in corruptions(1, want):
            try:
                r = hdr.parse_header(io.BytesIO((bad + BODY).encode("ascii")))
                out.append((f"corrupt-header-accepted/{name}", f"{bad!r} -> {header_fields(r[0], V1_FIELDS)}"))
            except E:
                pass
            except Exception as e:
                out.append((f"corrupt-header-wrong-error/{name}", f"{bad!r} -> {e!r}"))
    elif kind == "ctor":
        cls = hdr.OFXHeaderV1 if case["major"] == 1 else hdr.OFXHeaderV2
        try:
            r = cls(**case["kwargs"])
            out.append((f"bad-constructor-args-accepted/{case['why']}", f"{cls.__name__}(**{case['kwargs']}) -> {r!r}"))
        except E:
            pass
        except Exception as e:
            out.append((f"bad-constructor-args-wrong-error/{case['why']}", f"{cls.__name__}(**{case['kwargs']}) -> {e!r}"))
    elif kind == "make":
        v = case["version"]
        ok = None
        try:
            iv = int(v)
            ok = (100 <= iv <= 199) or iv in V2_SUPPORTED
        except (ValueError, TypeError):
            ok = False
        try:
            h = hdr.make_header(v)
            if not ok:
                out.append(("unsupported-version-accepted", f"make_header({v!r}) -> {str(h)!r}"))
        except E:
            if ok:
                out.append(("supported-version-refused", f"make_header({v!r})"))
        except Exception as e:
            out.append(("make-header-wrong-error", f"make_header({v!r}) -> {e!r}"))
    else:
        raise H.HarnessError(case)
    return out


def _table_worker(job):
    H.setup_path()
    s = H.Stats()
    for v in job:
        for sec in (None, "NONE", "TYPE1"):
            for old, new in ((None, None), ("a", "Z" * 36), ("0-_" * 12, "x")):
                c = {"kind": "roundtrip", "version": v, "security": sec, "old": old, "new": new}
                s.case(c, nontrivial=bool(sec == "TYPE1" or old), labels=["table-roundtrip", f"major-{v // 100}"])
                s.label("corruptions-tried", len(corruptions(v // 100, expected_vals(v, sec, old, new))))
                for k, d in check_case(c):
                    s.fail(k, c, d)
    return s


def _variant_worker(job):
    H.setup_path()
    s = H.Stats()
    for v in job:
        for enc in ("USASCII", "UNICODE", "UTF-8"):
            for cs in ("ISO-8859-1", "1252", "NONE"):
                for sec, old, new in ((None, None, None), ("TYPE1", "a-b_c", "Z" * 36)):
                    c = {"kind": "v1-variant", "version": v, "encoding": enc, "charset": cs, "security": sec, "old": old, "new": new}
                    s.case(c, nontrivial=True, labels=["v1-encoding-charset-variants"])
                    for k, d in check_case(c):
                        s.fail(k, c, d)
    return s


def _make_worker(job):
    H.setup_path()
    s = H.Stats()
    for v in job:
        for vv in (v, str(v)):
            c = {"kind": "make", "version": vv}
            s.case(c, nontrivial=True, labels=["make_header-version-sweep"])
            for k, d in check_case(c):
                s.fail(k, c, d)
    return s


def _sample_worker(job):
    H.setup_path()
    n, seed = job
    s = H.Stats()
    strat = st.one_of(
        st.builds(
            lambda v, sec, old, new, as_str: {"kind": "roundtrip", "version": v, "security": sec, "old": old, "new": new, "as_str": as_str},
            st.one_of(st.sampled_from(V1_SUPPORTED + V2_SUPPORTED), st.integers(100, 199)),
            st.sampled_from([None, "NONE", "TYPE1"]),
            st.one_of(st.none(), UID),
            st.one_of(st.none(), UID),
            st.booleans(),
        ),
        st.builds(
            lambda major, f, val: {"kind": "ctor", "major": major, "kwargs": dict({"version": 102 if major == 1 else 203}, **{f: val}), "why": f},
            st.sampled_from([1, 2]),
            st.sampled_from(["security", "oldfileuid", "newfileuid", "version", "ofxheader"]),
            st.one_of(st.sampled_from(["TYPE2", "x" * 37, "abc", "1x", 999, 1000, 2000, 12345]), st.text("abcdefXYZ", min_size=37, max_size=40)),
        ).filter(lambda c: _ctor_is_bad(c)),
        st.builds(lambda v: {"kind": "make", "version": v}, st.one_of(st.integers(-1000, 5000), st.text("abc1 .-", min_size=0, max_size=4))),
    )

    def body(c):
        s.case(c, nontrivial=c["kind"] != "roundtrip" or bool(c.get("security") == "TYPE1" or c.get("old") or c.get("new")), labels=["sampled-" + c["kind"]])
        for k, d in check_case(c):
            s.fail(k, c, d)

    H.hyp_run(strat, body, n, seed, stats=s)
    return s


def _ctor_is_bad(c):
    """Only keep constructor arguments that are outside the field's domain."""
    (f, val), = [(k, v) for k, v in c["kwargs"].items() if k != "version" or c["why"] == "version"][-1:]
    major = c["major"]
    if f == "security":
        return val not in ("NONE", "TYPE1")
    if f in ("oldfileuid", "newfileuid"):
        return isinstance(val, str) and len(val) > 36
    if f == "version":
        if isinstance(val, int):
            return (val > 999) if major == 1 else (val not in V2_SUPPORTED)
        return not str(val).isdigit()
    if f == "ofxheader":
        if isinstance(val, int):
            return val != (100 if major == 1 else 200)
        return True
    return False


def run(ctx):
    versions = sorted(set(range(100, 200)) | set(V2_SUPPORTED))
    ctx.pmap(_table_worker, [versions[i::16] for i in range(16)])
    v1s = [102, 103, 151, 160, 100, 199]
    ctx.pmap(_variant_worker, [[v] for v in v1s])
    allv = list(range(0, 1000))
    ctx.pmap(_make_worker, [allv[i::8] for i in range(8)])
    n = ctx.scale(1200, 20000)
    ctx.pmap(_sample_worker, [(n, ctx.sub_seed(sh)) for sh in range(8)])
    ctx.note("exhaustive_subspace", "all versions 100-199 + supported 2xx x 3 security levels x 3 UID pairs x full corruption/omission/transposition table; make_header over 0..999 as int and str")
