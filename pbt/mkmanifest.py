"""Regenerates /verif/MANIFEST.json from the table below (python -m pbt.mkmanifest)."""
import json
from pathlib import Path

VERIF = Path(__file__).resolve().parents[1]

PY = "/venv/bin/python"

# pid -> (category, text, note, technique)
CHECKS = {
    "C20": (
        "exploration",
        "Exhaustive enumeration of digit sub-spaces plus Hypothesis sampling over the full alphabets, each base compared "
        "with an independent implementation of the public check-digit algorithm and with all check-character replacements; "
        "cannot establish absence over the letter spaces.",
        "trusts the harness's own reference implementations of the CUSIP/SEDOL/ISIN algorithms",
        "property-based testing: exhaustive enumeration + Hypothesis sampling against an independent reference implementation (differential oracle)",
    ),
    "C09": (
        "exploration",
        "Hypothesis-generated calendar fields x notations x offsets x zone names rendered by an independent renderer, expected "
        "instant from integer civil-date arithmetic; every single-field corruption must be rejected; writing checked by an "
        "independent parser of the written form (instant within 500us, printed offset); exhaustive table over all 1561 whole-minute offsets.",
        "trusts stdlib datetime arithmetic and the harness's integer date arithmetic; sampled over instants",
        "property-based testing: Hypothesis generation + exhaustive offset table against an independent reference implementation; round-trip oracle for writing",
    ),
    "C10": (
        "exploration",
        "Hypothesis-generated (type parameterisation, required, list-wrapped, obligation) cases: value round trip through the wire "
        "escaping, text -> canonical fixed point with independently computed values, None passthrough, must-reject texts and values; "
        "plus an enumerated boundary table for every length 1..40, digits 1..12, scale 0..8.",
        "trusts reftypes' decimal/entity rules; lenient literals outside the documented lexical space are not asserted either way",
        "property-based testing: Hypothesis generation + enumerated boundary table; round-trip / fixed-point / reference-value oracles",
    ),
    "C02": (
        "exploration",
        "All trees with <=4 (thorough <=5) nodes x tag schemes x data x end-tag/CDATA choices x gaps enumerated exhaustively, larger "
        "trees (up to 40 leaves) sampled with Hypothesis over the full rendering-choice space; the oracle is the generated abstract tree "
        "itself (tags, nesting, order, trimmed still-escaped data, no attributes/tails); adjacent-token-pair coverage reported; sampled renderings "
        "also go through OFXTree.parse as complete v1 / v2 files and after a failed parse; an atheris campaign (seeded and empty corpus) "
        "asserts the scanner's tree for every mutated body the strict scanner finds well-formed.",
        "the generator's renderer is cross-checked against an independent strict scanner on every case (harness self-test)",
        "property-based testing: exhaustive small-tree enumeration + Hypothesis sampling; oracle = generated tree (inverse / metamorphic over renderings)",
    ),
    "C08": (
        "exploration",
        "Every fault operator (truncation at every token boundary / byte, end-tag deletion, renaming, duplication, transposition, stray "
        "end tag at every boundary, text after end tag, second root) applied at every position of every small well-formed body "
        "(<=4 nodes, enumerated) and of Hypothesis-sampled larger bodies and real request/response bodies; a mutant is asserted only "
        "when an independent strict scanner classifies it MUST_REJECT; mutants are also delivered as complete files under v1 and v2 headers, "
        "and an atheris campaign asserts rejection of every MUST_REJECT body it reaches.",
        "trusts the strict scanner (self-tested against the renderer on every C02 case); ambiguous dataless-start-tag mutants are not asserted",
        "property-based testing / fault injection: enumerated mutation operators over generated documents with a three-valued reference classifier as oracle",
    ),
    "C05": (
        "exploration",
        "Hypothesis-generated header field values x layouts (separators, blanks after colons, leading blank lines, header/body gap, "
        "XML quote style) x bodies over the declared charset (0x80-0xFF favoured); oracle is the inverse: parsed header fields and "
        "the exact body text equal the generated ones; the separator x gap x charset x COMPRESSION x lead product is enumerated.",
        "trusts Python's codecs; layouts the statement does not list are excluded (blank lines between fields, single-quoted OFX declaration)",
        "property-based testing: Hypothesis generation + enumerated layout product; inverse (generate file from parts, parse, compare parts) oracle",
    ),
    "C12": (
        "exploration",
        "Exhaustive table over all versions 100-199 and supported 2xx x security x UID boundary pairs: generated header text is read by "
        "an independent reader (kind and fields), parsed back (equal fields), and every single-field corruption, omission and adjacent "
        "transposition must raise OFXHeaderError; make_header swept over 0..999 (int and str); Hypothesis-sampled UIDs and constructor arguments.",
        "OFXHeaderError is the only accepted refusal; corruption of the XML declaration and omission of COMPRESSION are not asserted",
        "property-based testing: exhaustive enumeration of the version/corruption table + Hypothesis sampling; round-trip and must-reject oracles",
    ),
    "C01": (
        "exploration",
        "Every concrete aggregate class gets Hypothesis-generated valid instances (declaration-driven generator with hand-tabled custom "
        "constraints) which the library serialises in all six wire forms with drawn header versions and reads back; a structural "
        "comparator (never list.__eq__) checks classes, nesting, list order and typed values.  Sampled, cannot establish absence.",
        "generator validity rules are read from class declarations (cross-checked against Aggregate.spec); one open known finding is excluded by construction (unclosed SGML, empty aggregate followed by a sibling)",
        "property-based testing: Hypothesis structured generation over all classes; round-trip oracle with structural comparator",
    ),
    "C03": (
        "exploration",
        "Every concrete class gets Hypothesis-generated valid documents whose element texts are drawn from each type's lexical space and "
        "rendered by the generator's own renderer (XML / SGML with omitted end tags, varied gaps); an independent implementation of the "
        "type rules gives the expected (path, list position, native type, value) set, compared with the converted model in both directions.",
        "trusts reftypes (integer date arithmetic, decimal/entity rules); lenient lexical forms outside the documented space are not generated",
        "property-based testing: Hypothesis structured generation over all classes; differential oracle against an independent implementation of the OFX type rules",
    ),
    "C04": (
        "exploration",
        "All declared constraints of all classes enumerated as obligations (required, groups over all bases, token sets, lengths, digits, "
        "order, duplicates, member types, undeclared keywords, custom constraints) and violated / met exactly at the limit on both "
        "construction routes; plus randomly mutated valid trees whose accepted results are checked by an independent validator.",
        "constraints are read from class declarations and a hand-written table of the 18 custom validate_args rules; warn-only strings excluded",
        "property-based testing: exhaustive enumeration of declared constraints x routes + Hypothesis-mutated trees against an independent validator",
    ),
    "C07": (
        "exploration",
        "Generated valid documents of every class contaminated with 1-5 foreign nodes (unknown leaf / empty element / aggregate with "
        "known sub-trees, vendor-prefixed leaf / aggregate, other classes' tags) at arbitrary positions of arbitrary aggregates, "
        "delivered as element tree and as XML and SGML text; foreign aggregates up to 24 levels deep, named like the root (OFX), inside "
        "lists of hundreds of members; metamorphic oracle: equal to the conversion of the uncontaminated document, input tree untouched.",
        "unknown = not an attribute name or OFX tag of the enclosing class; warnings are not an oracle",
        "property-based testing: Hypothesis structured generation + metamorphic relation (insertions do not change the result)",
    ),
    "C11": (
        "exploration",
        "Instances of every class from wide scalar domains (whole Decimal space incl. special values, markup-heavy strings, any fixed "
        "offset and zone name); what the library accepts and writes is checked leaf by leaf against the lexical rule of the declared "
        "type, and each wire form is tokenised by an independent lexer (no raw '<', every '&' an entity, data identical to the tree).",
        "refusals are allowed; lexical rules are the harness's own regexes",
        "property-based testing: Hypothesis generation over wide value domains; validity-predicate oracle per declared type + independent wire lexer",
    ),
    "C13": (
        "exploration",
        "Finite space enumerated exhaustively: every class x (found by tag; each declared child constructible, written under its tag, read "
        "back through XML and SGML without unknown-tag warning; Unsupported children tolerated; every exclusivity group names declared, "
        "non-repeated, optional children and is in force in each inheriting class; maximal instance of classes with repeated children "
        "accepted by the library's own reader).",
        "probe values come from the harness's minimal-instance builder; unclosed-SGML probes skip the open known finding of C01",
        "exhaustive enumeration of (class, child, obligation) triples with construct/write/read probes (property-based testing over a finite domain)",
    ),
    "C16": (
        "exploration",
        "Generated instances of all classes plus dense OFX / message-set roots: flat access compared with the stored object for every "
        "uniquely-defined name (computed from declarations), all documented shortcuts compared by identity with explicit path walkers, "
        "undefined and dunder names must miss cleanly, copy / deepcopy / pickle (all protocols) must reproduce an equal model.",
        "names that are class attributes / properties of any class on the path are excluded from the flat-access obligation",
        "property-based testing: Hypothesis structured generation; reference-model oracle (explicit path walkers) and round-trip oracle for copies",
    ),
    "C17": (
        "exploration",
        "Workloads over generated inputs of all classes (wire round trips in all forms, harness-built and contaminated trees, held "
        "instances, type conversions incl. DateTime strings, failing constructions and mis-nested bodies): deep before/after snapshots "
        "of bytes, element trees and models; results before / after / after-permuted histories and on repetition compared by "
        "canonical dump; 2-16 concurrent threads must reproduce the sequential baseline (also as first users of a class in a fresh "
        "interpreter, and all converting deep documents at once); probes are compared with a fresh interpreter; every failing "
        "obligation of C04 three times in a row; convert() twice on one OFXTree with an in-place edit in between.",
        "thread interleavings are the interpreter's (10us switch interval), so the thread part can only refute",
        "property-based testing: Hypothesis-generated operation histories with snapshot (purity) and history-independence invariants; concurrent differential against sequential baseline",
    ),
    "C06": (
        "exploration",
        "Hypothesis-generated client configurations x request multisets (all five statement kinds, account-info, profile, tax) composed "
        "as dry runs; the bytes are read by an independent header reader and strict scanner and compared field by field with a "
        "reference model of the request (sign-on, FI, CLIENTUID rule, wrappers per kind in order, dates as instants, flags, message "
        "sets, distinct TRNUIDs); the library's own parse of the same bytes must agree; v2 without end tags must be refused.",
        "UUIDs / DTCLIENT only enter as distinct / valid; entity-looking strings excluded by construction (open known finding)",
        "property-based testing: Hypothesis generation; reference-model oracle + differential between an independent reader and the library's reader",
    ),
    "C14": (
        "exploration",
        "Hypothesis rule-based state machine over 1-3 clients and a scripted in-process server (urllib handlers replaced, cookie and error "
        "processors real, socket guard): after every call the recorded traffic is compared with a reference model - no traffic on dry "
        "runs, one POST per expected hop to the expected URL with the right headers, body equal to the dry-run serialisation as a parsed "
        "story, anonymous profile hops, credentials only to the advertised / configured URL, Cookie header equal to a per-client reference jar; "
        "URLs with percent-escapes, per-call profile URLs, redirecting servers; separate ofxget runs against a server setting persistent cookies.",
        "urllib transport only; host-only cookies with Path=/; when the service URL comes from a profile cached by a path the model did not follow the service hop is not predicted",
        "property-based testing: Hypothesis stateful (rule-based machine) with a reference model of expected traffic and cookie jars as invariant",
    ),
    "C15": (
        "fault_enumeration",
        "Histories: Hypothesis rule-based machine over seven servers (sharing ORG/FID, host, differing by path / port / query) with a reference model (newest delivered "
        "profile bytes per server); crash points: every Python file-I/O event of a cache-writing request turned into a hard crash "
        "(os._exit in a forked child; unflushed / flushed / half-written variants) followed by a restart against a well-behaved server; "
        "schedules: all interleavings of two concurrent profile requests gated at cache read / server reply / open / write / close / "
        "replace; ofxget's scan (concurrent requests through one client) and real restarts (fresh interpreter per run, unpinned hash seed).  "
        "Invariants: returned bytes, DTPROFUP asked, request URL, cache contents whole and newest, no cross-server use.",
        "crash granularity is the Python I/O call; kernel write reordering is not modelled; for concurrent writers only wholeness and usability are asserted",
        "property-based testing / fault injection: Hypothesis stateful machine with reference model + exhaustive crash-point and two-thread schedule enumeration under harness-owned I/O interception",
    ),
    "C18": (
        "exploration",
        "Hypothesis rule-based machine over one configuration directory: each run draws a nickname (real fi.cfg sections covering every "
        "option kind, or fresh names) and, per option, which of CLI / user file (typed text forms) / FI database / fake OFX Home / default "
        "set it; a reference model computed from independently parsed sources predicts merge_config(); --write runs perform a real "
        "request against a fake server and are followed by a run without options (persistence), with password / dry-run / default-CLIENTUID checks.",
        "one ofxget run = module reload against the directory (as a new process sees it); FI-database values as shipped; explicit empty values are not asserted either way",
        "property-based testing: Hypothesis stateful machine with a reference model of source precedence + metamorphic write/re-run relation",
    ),
    "C19": (
        "exploration",
        "Hypothesis-generated ofxget runs in fresh configuration directories: account multisets per type from CLI and/or user file, ids, "
        "dates in all notations, include flags, versions and formats; dry-run output of stmt / stmtend is read by the independent "
        "scanner and compared with a reference model of the expected wrappers; --all runs are real runs against a fake server "
        "serving generated ACCTINFORS, and the statement request the server receives must ask for exactly the ACTIVE accounts.",
        "accounts compared as multisets per request kind; --all combined with local lists only asserts that no inactive account is requested",
        "property-based testing: Hypothesis generation; reference-model oracle on the printed / received request (independent reader)",
    ),
}

PENDING_REASON = "check not built yet in this round (planned in DESIGN.md §3); not claimed until its machinery exists and is quiet on the unchanged tree"


def main():
    props = [json.loads(l) for l in (VERIF / "properties.jsonl").read_text().splitlines() if l.strip()]
    checks = []
    for p in props:
        pid = p["id"]
        if pid not in CHECKS:
            continue
        cat, text, note, tech = CHECKS[pid]
        checks.append(
            {
                "property_id": pid,
                "quick_cmd": f"{PY} -m pbt.run {pid} --tier quick",
                "thorough_cmd": f"{PY} -m pbt.run {pid} --tier thorough",
                "evidence_file": f"evidence/{pid}.json",
                "replay_cmd_template": f"{PY} -m pbt.run {pid} --replay {{path}}",
                "engine": "pbt",
                "level_claimed": {"category": cat, "text": text, "design_ref": f"DESIGN.md §3 {pid}"},
                "level_note": note,
                "technique": tech,
            }
        )
    man = {
        "version": 1,
        "setup_cmd": f"({PY} -c 'import hypothesis' 2>/dev/null || /venv/bin/pip install --no-index --find-links /opt/veriftools/wheels hypothesis) && (test -d /verif/.deps/atheris || /venv/bin/pip install -q --no-index --find-links /opt/veriftools/wheels --target /verif/.deps atheris || true)",
        "hooks": {
            "guard": "OFXTOOLS_VERIF",
            "enable": "no source hooks: checks import /repo's working tree directly (ofxtools is installed editable in /venv and /repo is put first on sys.path)",
            "baseline_off_cmd": "cd /repo && /venv/bin/python -m pytest -ra -q -p no:cacheprovider --timeout=900 --continue-on-collection-errors",
            "source_commits": [],
            "add_only": True,
        },
        "engines": [
            {
                "name": "pbt",
                "path": "pbt/",
                "serves_properties": sorted(CHECKS),
                "kind_free_text": "Hypothesis strategies / stateful machines / exhaustive enumeration over a process pool, explicit oracles, collect-then-shrink, replay files",
            },
            {
                "name": "atheris-fuzz",
                "path": "fuzz/",
                "serves_properties": ["C02", "C08"],
                "kind_free_text": "supplementary coverage-guided fuzzing (atheris/libFuzzer) of the body parser with the three-valued reference scanner as in-target oracle; run from the C02/C08 checks, findings re-checked through check_case",
            },
        ],
        "checks": checks,
        "notes": "All checks: exit 0 held / 1 VIOLATION line(s) / 2 harness error. Known findings in known_findings.json.",
        "not_applicable": [
            {"property_id": p["id"], "reason": PENDING_REASON} for p in props if p["id"] not in CHECKS
        ],
    }
    (VERIF / "MANIFEST.json").write_text(json.dumps(man, indent=1) + "\n")
    print(f"{len(checks)} checks, {len(man['not_applicable'])} not claimed")


if __name__ == "__main__":
    main()
