"""Writes pbt/data/enum_tokens.json: the enumeration tokens every class declares on the tree this machinery was built
against (the pinned baseline).  C03 uses it as the reference set of tokens that valid documents may carry: a token that
silently drops out of a table (a lost comma merging two codes, a renamed constant) makes valid documents unreadable, and
a checker that asks the running library for its own table cannot see that.

    python -m pbt.mksnapshot        (re-run only deliberately, after an intended change of the enumerations)
"""
import json
from pathlib import Path

from pbt.core import harness as H
from pbt.core import modelgen as M


def main():
    H.setup_path()
    from ofxtools import Types

    out = {}
    for name, cls in sorted(M.universe().items()):
        for attr, kind, t in M.decl(cls):
            tt = t.converter if kind == "listelem" else t
            if kind in ("elem", "listelem") and isinstance(tt, Types.OneOf):
                toks = [x for x in tt.valid if isinstance(x, str)]
                if toks:
                    out.setdefault(name, {})[attr] = toks
    p = Path(__file__).resolve().parent / "data" / "enum_tokens.json"
    p.write_text(json.dumps(out, indent=0, sort_keys=True) + "\n")
    print(sum(len(v) for v in out.values()), "enumerated attributes,", sum(len(t) for v in out.values() for t in v.values()), "tokens")


if __name__ == "__main__":
    main()
