"""
Behaviour-preserving changes (written by sub-agents that saw only the property text): realistic refactorings and
changes outside a property's domain under which the property still holds.  They measure false alarms.

  python -m pbt.benign validate <ID> <dir-with-patch.diff,meta.json> --name=NAME
        confirms on a scratch copy of /repo that the patch applies and the repository's own test-suite passes with it;
        stores it as benign/<NAME>/.
  python -m pbt.benign run [NAME ...] [--tier=quick] [--related | --all-checks]
        applies each stored patch to a scratch copy (removed afterwards) and runs the targeted property's check
        (--related: every check that exercises a changed file; --all-checks: all 20) with VERIF_REPO=<copy>.
        Expected: exit 0 everywhere.  Results -> benign/RESULTS.json
  python -m pbt.benign report   -> benign/README.md
"""
from __future__ import annotations

import json
import os
import shutil
import subprocess
import sys
import time
from pathlib import Path

from pbt.seeded import PY, VERIF, _merge_result, scratch

# which checks drive code of which file (for --related)
RELATED = {
    "ofxtools/Parser.py": ["C01", "C02", "C03", "C05", "C07", "C08", "C17"],
    "ofxtools/Types.py": ["C01", "C03", "C04", "C09", "C10", "C11", "C17"],
    "ofxtools/models/base.py": ["C01", "C04", "C07", "C11", "C13", "C16", "C17"],
    "ofxtools/header.py": ["C01", "C05", "C12"],
    "ofxtools/Client.py": ["C01", "C06", "C11", "C14", "C15"],
    "ofxtools/scripts/ofxget.py": ["C15", "C18", "C19"],
    "ofxtools/utils.py": ["C01", "C06", "C11", "C20"],
    "ofxtools/config": ["C18", "C19"],
    "ofxtools/models/": ["C01", "C04", "C13", "C16"],
}


def related_checks(pid, files):
    out = [pid]
    for f in files:
        for k, v in RELATED.items():
            if f == k or (k.endswith("/") and f.startswith(k)) or (k == "ofxtools/config" and f.startswith(k)):
                out += [x for x in v if x not in out]
    return out


def changed_files(patch: Path):
    return sorted({ln[6:].strip() for ln in patch.read_text().splitlines() if ln.startswith("+++ b/")})


def validate(pid, src, name):
    src = Path(src)
    patch = src / "patch.diff"
    meta = json.loads((src / "meta.json").read_text()) if (src / "meta.json").exists() else {}
    tmp, repo = scratch(patch)
    try:
        env = dict(os.environ, PYTHONPATH=str(repo))
        p = subprocess.run([PY, "-m", "pytest", "-q", "-p", "no:cacheprovider", "-n", "8", "tests"], cwd=repo, env=env, capture_output=True, text=True)
        ok = p.returncode == 0
        tail = p.stdout.strip().splitlines()[-1:] if p.stdout else []
    finally:
        shutil.rmtree(tmp, ignore_errors=True)
    print(json.dumps({"property": pid, "name": name, "tests_pass_with_patch": ok, "tests_tail": tail}))
    if ok:
        dst = VERIF / "benign" / name
        dst.mkdir(parents=True, exist_ok=True)
        shutil.copy(patch, dst / "patch.diff")
        meta.update({"property": pid, "files_changed": changed_files(patch), "confirmed_here": {"tests_pass_with_patch": True}})
        (dst / "meta.json").write_text(json.dumps(meta, indent=1) + "\n")
    return ok


def run(names, tier, mode):
    root = VERIF / "benign"
    res_path = root / "RESULTS.json"
    names = names or sorted(p.name for p in root.iterdir() if (p / "patch.diff").exists())
    man = json.loads((VERIF / "MANIFEST.json").read_text())
    all_ids = [c["property_id"] for c in man["checks"]]
    for name in names:
        d = root / name
        meta = json.loads((d / "meta.json").read_text())
        pid = meta["property"]
        ids = all_ids if mode == "all" else related_checks(pid, changed_files(d / "patch.diff")) if mode == "related" else [pid]
        tmp, repo = scratch(d / "patch.diff")
        try:
            rec = {"property": pid, "checks": {}}
            for cid in ids:
                env = dict(os.environ, VERIF_REPO=str(repo), PYTHONPATH=str(VERIF), VERIF_EVIDENCE_DIR=str(tmp / "ev"), VERIF_REPLAY_DIR=str(tmp / "rp"))
                t0 = time.time()
                p = subprocess.run([PY, "-m", "pbt.run", cid, "--tier", tier], cwd=VERIF, env=env, capture_output=True, text=True)
                keys = sorted({ln.split("key=")[1].split(" ")[0] for ln in p.stdout.splitlines() if ln.startswith("VIOLATION") and "key=" in ln})[:6]
                r = {"exit": p.returncode, "quiet": p.returncode == 0, "keys": keys, "s": round(time.time() - t0, 1)}
                if p.returncode != 0:
                    r["tail"] = (p.stdout[-600:] + "\n" + p.stderr[-600:]).strip()
                rec["checks"][f"{cid}/{tier}"] = r
                print(name, cid, tier, {k: v for k, v in r.items() if k != "tail"}, flush=True)
            _merge_result(res_path, name, rec)
        finally:
            shutil.rmtree(tmp, ignore_errors=True)


def report():
    root = VERIF / "benign"
    results = json.loads((root / "RESULTS.json").read_text()) if (root / "RESULTS.json").exists() else {}
    lines = [
        "# Behaviour-preserving changes (false-alarm measurement)",
        "",
        "Each directory holds `patch.diff` (a realistic change to csingley/ofxtools written by a sub-agent that was given only the text of",
        "the property and a scratch worktree, under which the property still holds: an internal refactoring, or a change of behaviour",
        "outside the property's domain) and `meta.json` (what it does, why the property still holds).  Each was confirmed on a scratch copy of",
        "/repo: it applies and the repository's own tests pass with it.  None is ever committed to /repo.",
        "",
        "`python -m pbt.benign run [NAME] [--related|--all-checks]` applies each to a scratch copy and runs the checks with `VERIF_REPO=<copy>`;",
        "every check is expected to exit 0.  Generated from `RESULTS.json` by `python -m pbt.benign report`.",
        "",
        "| change | property | what it does | checks run (all quiet unless listed) | not quiet |",
        "|---|---|---|---|---|",
    ]
    for name in sorted(p.name for p in root.iterdir() if (p / "patch.diff").exists()):
        meta = json.loads((root / name / "meta.json").read_text())
        rec = results.get(name, {"checks": {}})
        ran = sorted(rec["checks"])
        loud = [f"{k} (exit {v['exit']}: {', '.join(v['keys'][:2])})" for k, v in sorted(rec["checks"].items()) if not v.get("quiet")]
        lines.append(f"| {name} | {meta['property']} | {str(meta.get('summary', '')).replace('|', '/')[:240]} | {', '.join(k.split('/')[0] for k in ran) or '-'} | {'; '.join(loud) or '-'} |")
    (root / "README.md").write_text("\n".join(lines) + "\n")
    print("\n".join(lines[-45:]))


def main():
    a = sys.argv[1:]
    if a and a[0] == "validate":
        name = a[1]
        for x in a:
            if x.startswith("--name="):
                name = x.split("=", 1)[1]
        sys.exit(0 if validate(a[1], a[2], name) else 1)
    if a and a[0] == "run":
        tier = "quick"
        names = [x for x in a[1:] if not x.startswith("--")]
        for x in a:
            if x.startswith("--tier="):
                tier = x.split("=", 1)[1]
        run(names, tier, "all" if "--all-checks" in a else "related" if "--related" in a else "target")
        return
    if a and a[0] == "report":
        report()
        return
    print(__doc__)


if __name__ == "__main__":
    main()
