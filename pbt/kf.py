"""Tiny helper to append entries to known_findings.json:  python -m pbt.kf '<json entry>'"""
import json, sys
from pathlib import Path
p = Path(__file__).resolve().parents[1] / "known_findings.json"
k = json.loads(p.read_text())
for a in sys.argv[1:]:
    e = json.loads(a)
    k["findings"] = [x for x in k["findings"] if not (x["property"] == e["property"] and x["key"] == e["key"])] + [e]
p.write_text(json.dumps(k, indent=1, ensure_ascii=False) + "\n")
print(len(k["findings"]), "entries")
