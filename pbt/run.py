"""CLI:  python -m pbt.run <ID> --tier quick|thorough [--replay FILE]"""
import sys
from pbt.core.harness import main

if __name__ == "__main__":
    sys.exit(main(sys.argv[1:]))
