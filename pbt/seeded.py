"""
Independently seeded property-breaking changes (written by sub-agents that saw only the property text).

  python -m pbt.seeded validate <ID> <dir-with-patch.diff,demo.py,meta.json> [--name=NAME]
        confirms on scratch copies of /repo: the patch applies, the repository's own test-suite passes with it,
        the demonstration fails with the patch and passes without; then stores it as seeded/<NAME>/.
  python -m pbt.seeded run [NAME ...] [--tier quick] [--all-checks]
        applies each stored patch to a scratch copy (removed afterwards) and runs the targeted property's check
        (or every check) with VERIF_REPO=<copy>; results -> seeded/RESULTS.json
"""
from __future__ import annotations

import json
import os
import shutil
import subprocess
import sys
import tempfile
import time
from pathlib import Path

VERIF = Path(__file__).resolve().parents[1]
PY = "/venv/bin/python"
IGNORE = shutil.ignore_patterns(".git", "__pycache__", "*.pyc", ".pytest_cache", "docs")


def scratch(patch: Path | None):
    tmp = Path(tempfile.mkdtemp(prefix="verif_seed_"))
    repo = tmp / "repo"
    shutil.copytree("/repo", repo, ignore=IGNORE)
    if patch is not None:
        p = subprocess.run(["patch", "-p1", "-s", "-i", str(patch)], cwd=repo, capture_output=True, text=True)
        if p.returncode != 0:
            shutil.rmtree(tmp, ignore_errors=True)
            raise RuntimeError(f"patch does not apply: {p.stdout} {p.stderr}")
    return tmp, repo


def validate(pid, src, name):
    src = Path(src)
    patch, demo = src / "patch.diff", src / "demo.py"
    meta = json.loads((src / "meta.json").read_text()) if (src / "meta.json").exists() else {}
    out = {"property": pid, "name": name}
    tmp, repo = scratch(patch)
    try:
        env = dict(os.environ, PYTHONPATH=str(repo))
        t0 = time.time()
        p = subprocess.run([PY, "-m", "pytest", "-q", "-p", "no:cacheprovider", "-n", "8", "tests"], cwd=repo, env=env, capture_output=True, text=True)
        out["tests_pass_with_patch"] = p.returncode == 0
        out["tests_tail"] = p.stdout.strip().splitlines()[-1:] if p.stdout else []
        d = subprocess.run([PY, str(demo)], cwd=tmp, env=env, capture_output=True, text=True, timeout=600)
        out["demo_exit_with_patch"] = d.returncode
    finally:
        shutil.rmtree(tmp, ignore_errors=True)
    tmp, repo = scratch(None)
    try:
        env = dict(os.environ, PYTHONPATH=str(repo))
        d = subprocess.run([PY, str(demo)], cwd=tmp, env=env, capture_output=True, text=True, timeout=600)
        out["demo_exit_without_patch"] = d.returncode
        out["demo_stderr_without_patch"] = d.stderr[-300:] if d.returncode else ""
    finally:
        shutil.rmtree(tmp, ignore_errors=True)
    ok = out["tests_pass_with_patch"] and out["demo_exit_with_patch"] != 0 and out["demo_exit_without_patch"] == 0
    out["confirmed"] = ok
    print(json.dumps(out, indent=1))
    if ok:
        dst = VERIF / "seeded" / name
        dst.mkdir(parents=True, exist_ok=True)
        shutil.copy(patch, dst / "patch.diff")
        shutil.copy(demo, dst / "demo.py")
        meta.update({"property": pid, "confirmed_here": {k: out[k] for k in ("tests_pass_with_patch", "demo_exit_with_patch", "demo_exit_without_patch")},
                     "what_was_run": "patch applied to a scratch copy of /repo (HEAD incl. fix: commits); pytest -n 8 tests; demo.py with PYTHONPATH=<copy> with and without the patch"})
        (dst / "meta.json").write_text(json.dumps(meta, indent=1) + "\n")
    return ok


def _merge_result(res_path, name, rec):
    """Read-modify-write under an exclusive lock (several runs may be going on)."""
    import fcntl

    lock = res_path.with_suffix(".lock")
    with open(lock, "w") as lf:
        fcntl.flock(lf, fcntl.LOCK_EX)
        cur = json.loads(res_path.read_text()) if res_path.exists() else {}
        old = cur.get(name, {"property": rec["property"], "checks": {}})
        old["checks"].update(rec["checks"])
        cur[name] = old
        res_path.write_text(json.dumps(cur, indent=1, sort_keys=True) + "\n")


def run(names, tier, all_checks):
    root = VERIF / "seeded"
    res_path = root / "RESULTS.json"
    results = json.loads(res_path.read_text()) if res_path.exists() else {}
    names = names or sorted(p.name for p in root.iterdir() if (p / "patch.diff").exists())
    man = json.loads((VERIF / "MANIFEST.json").read_text())
    all_ids = [c["property_id"] for c in man["checks"]]
    for name in names:
        d = root / name
        meta = json.loads((d / "meta.json").read_text())
        pid = meta["property"]
        tmp, repo = scratch(d / "patch.diff")
        try:
            rec = {"property": pid, "checks": {}}
            for cid in (all_ids if all_checks else [pid]):
                env = dict(os.environ, VERIF_REPO=str(repo), PYTHONPATH=str(VERIF), VERIF_EVIDENCE_DIR=str(tmp / "ev"), VERIF_REPLAY_DIR=str(tmp / "rp"))
                t0 = time.time()
                p = subprocess.run([PY, "-m", "pbt.run", cid, "--tier", tier], cwd=VERIF, env=env, capture_output=True, text=True)
                keys = sorted({ln.split("key=")[1].split(" ")[0] for ln in p.stdout.splitlines() if ln.startswith("VIOLATION") and "key=" in ln})[:6]
                rec["checks"][f"{cid}/{tier}"] = {"exit": p.returncode, "caught": p.returncode == 1, "keys": keys, "s": round(time.time() - t0, 1)}
                if p.returncode not in (0, 1):
                    rec["checks"][f"{cid}/{tier}"]["stderr"] = p.stderr[-500:]
                print(name, cid, tier, rec["checks"][f"{cid}/{tier}"])
            _merge_result(res_path, name, rec)
        finally:
            shutil.rmtree(tmp, ignore_errors=True)


def report():
    root = VERIF / "seeded"
    results = json.loads((root / "RESULTS.json").read_text()) if (root / "RESULTS.json").exists() else {}
    lines = [
        "# Independently seeded property-breaking changes",
        "",
        "Each directory holds `patch.diff` (a change to csingley/ofxtools written by a sub-agent that was given only the text of the",
        "property and a scratch worktree), `demo.py` (fails with the change, passes without) and `meta.json` (what it breaks, what it needs",
        "to manifest, what was run to confirm it).  Every change was confirmed on a scratch copy of /repo: the repository's own 3592 tests",
        "pass with it, the demonstration exits non-zero with it and zero without.  None of them is ever committed to /repo.",
        "",
        "`python -m pbt.seeded run [NAME] [--tier=quick|thorough] [--all-checks]` applies each patch to a scratch copy and runs the checks with",
        "`VERIF_REPO=<copy>`; the table below is generated from `RESULTS.json` by `python -m pbt.seeded report`.",
        "",
        "| change | property | needs, to manifest | caught by (tier: failure keys) | not caught by |",
        "|---|---|---|---|---|",
    ]
    for name in sorted(p.name for p in root.iterdir() if (p / "patch.diff").exists()):
        meta = json.loads((root / name / "meta.json").read_text())
        rec = results.get(name, {"checks": {}})
        caught = [f"{k}: {', '.join(v['keys'][:3])}" for k, v in sorted(rec["checks"].items()) if v.get("caught")]
        missed = [k for k, v in sorted(rec["checks"].items()) if not v.get("caught") and k.startswith(meta["property"])]
        lines.append(f"| {name} | {meta['property']} | {str(meta.get('needs_to_manifest', '')).replace('|', '/')[:260]} | {'; '.join(caught) or '-'} | {', '.join(missed) or '-'} |")
    (root / "README.md").write_text("\n".join(lines) + "\n")
    print("\n".join(lines[-25:]))


def main():
    a = sys.argv[1:]
    if a and a[0] == "validate":
        name = a[1]
        for x in a:
            if x.startswith("--name="):
                name = x.split("=", 1)[1]
        sys.exit(0 if validate(a[1], a[2], name) else 1)
    if a and a[0] == "run":
        tier = "quick"
        names = [x for x in a[1:] if not x.startswith("--")]
        for x in a:
            if x.startswith("--tier="):
                tier = x.split("=", 1)[1]
        run(names, tier, "--all-checks" in a)
        return
    if a and a[0] == "report":
        report()
        return
    print(__doc__)


if __name__ == "__main__":
    main()
