"""
Shared harness: seeds, tiers, case accounting, collect-then-shrink, evidence,
replay files, known-finding matching, exit codes.

A check module (pbt/checks/cNN.py) exposes

    PID        = "C20"
    LEVEL      = "exploration" | "fault_enumeration"
    RULE       = "<how cases are generated and what makes one non-trivial>"
    ASSUMPTIONS = [...]
    def run(ctx): ...                      # drive generators, call ctx.case/ctx.fail
    def check_case(case) -> list[(key, detail)]   # pure re-execution of ONE case (replay)

Failures are *collected*, keyed by a root-cause signature; the smallest case per
signature is kept and written as a replay file.  Signatures listed as open in
known_findings.json print a KNOWN-FINDING line instead of a VIOLATION.
"""
from __future__ import annotations

import hashlib
import json
import os
import sys
import time
import traceback
from collections import Counter
from pathlib import Path

VERIF = Path(__file__).resolve().parents[2]
REPO = os.environ.get("VERIF_REPO", "/repo")


def setup_path() -> None:
    """Make sure the tree under test is the one imported."""
    if REPO not in sys.path:
        sys.path.insert(0, REPO)
    import ofxtools  # noqa

    got = os.path.realpath(os.path.dirname(os.path.dirname(ofxtools.__file__)))
    if got != os.path.realpath(REPO):
        raise HarnessError(f"ofxtools imported from {got}, expected {REPO}")


class HarnessError(Exception):
    """Defect of the verification machinery itself (exit code 2)."""


def canon(obj) -> str:
    return json.dumps(obj, sort_keys=True, ensure_ascii=True, default=repr, separators=(",", ":"))


def chash(obj) -> str:
    return hashlib.blake2b(canon(obj).encode(), digest_size=8).hexdigest()


def derive_seed(seed: int, *parts) -> int:
    h = hashlib.blake2b(canon([seed, *parts]).encode(), digest_size=8).digest()
    return int.from_bytes(h, "big") % (2**63)


class Stats:
    """Mergeable, picklable accounting of one (shard of a) run."""

    MAX_SAMPLES = 12

    def __init__(self):
        self.evaluations = 0
        self.nontrivial = set()  # hashes of distinct non-trivial cases
        self.nontrivial_enum = 0  # distinct-by-construction cases of enumerated (disjoint) spaces
        self.labels = Counter()
        self.exceptions = Counter()
        self.samples = []
        self.failures = {}  # key -> (size, case, detail)
        self.fail_counts = Counter()
        self.notes = {}
        self.excluded = Counter()

    # -- recording ---------------------------------------------------------
    def case(self, case, nontrivial=True, labels=(), h=None):
        self.evaluations += 1
        for lab in labels:
            self.labels[lab] += 1
        if nontrivial:
            hh = h or chash(case)
            if hh not in self.nontrivial:
                self.nontrivial.add(hh)
                if len(self.samples) < self.MAX_SAMPLES and (
                    len(self.nontrivial) in (1, 2, 3) or len(self.nontrivial) % 97 == 0
                ):
                    self.samples.append(_clip(case))

    def count(self, n=1, nontrivial_enum=0):
        """Bulk accounting for enumerations too large to hash per case; nontrivial_enum
        counts cases that are distinct by construction (each point of a space visited once)."""
        self.evaluations += n
        self.nontrivial_enum += nontrivial_enum

    @property
    def n_nontrivial(self):
        return len(self.nontrivial) + self.nontrivial_enum

    def sample(self, case):
        if len(self.samples) < self.MAX_SAMPLES:
            self.samples.append(_clip(case))

    def label(self, lab, n=1):
        self.labels[lab] += n

    def exc(self, e):
        self.exceptions[type(e).__name__] += 1

    def exclude(self, why, n=1):
        self.excluded[why] += n

    def fail(self, key, case, detail=""):
        self.fail_counts[key] += 1
        size = len(canon(case))
        old = self.failures.get(key)
        if old is None or size < old[0]:
            self.failures[key] = (size, case, str(detail)[:2000])

    def note(self, k, v):
        self.notes[k] = v

    # -- merging -----------------------------------------------------------
    def merge(self, other: "Stats"):
        self.evaluations += other.evaluations
        self.nontrivial |= other.nontrivial
        self.nontrivial_enum += other.nontrivial_enum
        self.labels.update(other.labels)
        self.exceptions.update(other.exceptions)
        self.excluded.update(other.excluded)
        self.fail_counts.update(other.fail_counts)
        for s in other.samples:
            if len(self.samples) < self.MAX_SAMPLES:
                self.samples.append(s)
        for k, v in other.failures.items():
            old = self.failures.get(k)
            if old is None or v[0] < old[0]:
                self.failures[k] = v
        for k, v in other.notes.items():
            if k in self.notes and isinstance(v, (int, float)) and isinstance(self.notes[k], (int, float)):
                self.notes[k] += v
            elif k in self.notes and isinstance(v, dict) and isinstance(self.notes[k], dict):
                for kk, vv in v.items():
                    if isinstance(vv, (int, float)) and isinstance(self.notes[k].get(kk), (int, float)):
                        self.notes[k][kk] += vv
                    else:
                        self.notes[k].setdefault(kk, vv)
            else:
                self.notes.setdefault(k, v)


def _clip(case, limit=1500):
    s = canon(case)
    if len(s) <= limit:
        return case
    return {"clipped": s[:limit] + "..."}


class Ctx(Stats):
    def __init__(self, pid, tier, seed):
        super().__init__()
        self.pid = pid
        self.tier = tier
        self.seed = seed
        self.t0 = time.time()
        self.exhaustive = None
        self.budget_s = None

    @property
    def thorough(self):
        return self.tier == "thorough"

    def scale(self, quick, thorough):
        return thorough if self.thorough else quick

    def sub_seed(self, *parts):
        return derive_seed(self.seed, self.pid, *parts)

    def elapsed(self):
        return time.time() - self.t0

    # -- process pool ------------------------------------------------------
    def pmap(self, fn, jobs, procs=None, ambient=True):
        """Run fn(job) -> Stats over jobs in a process pool, merge results.  The shards are spread over the ambient
        environments (see AMBIENTS): the properties do not depend on the log level or on the machine's time zone."""
        import multiprocessing as mp

        procs = procs or min(16, os.cpu_count() or 1, max(1, len(jobs)))
        wrapped = [(fn, j, AMBIENTS[i % len(AMBIENTS)] if (ambient and len(jobs) > 1) else None) for i, j in enumerate(jobs)]
        if procs <= 1 or len(jobs) <= 1:
            for w in wrapped:
                self.merge(_ambient_call(w))
            return
        mpctx = mp.get_context("fork")
        with mpctx.Pool(procs) as pool:
            for st in pool.imap_unordered(_ambient_call, wrapped, chunksize=1):
                self.merge(st)


# ---------------------------------------------------------------------------
# ambient environment: things a user's process has that no input carries
# ---------------------------------------------------------------------------
AMBIENTS = [
    None,
    {"log": "DEBUG"},  # what `ofxget -vv` or logging.basicConfig(level=DEBUG) gives
    {"tz": "XST-5:30XDT,M3.2.0,M11.1.0"},  # a local time zone that is not UTC (POSIX rule, no tz database needed)
    {"log": "DEBUG", "tz": "YST8"},
    None,
]


class _Sink:
    """A log handler that formats every record (as a real handler would) and throws it away."""

    level = 0

    def handle(self, record):
        try:
            record.getMessage()
        except Exception:
            pass
        return True


def apply_ambient(amb):
    import logging

    lg = logging.getLogger("ofxtools")
    if amb and amb.get("log"):
        lg.setLevel(getattr(logging, amb["log"]))
        if not any(isinstance(h, logging.Handler) and getattr(h, "_verif_sink", False) for h in lg.handlers):
            h = logging.Handler()
            h._verif_sink = True
            h.emit = lambda record: record.getMessage()
            lg.addHandler(h)
        lg.propagate = False
    else:
        lg.setLevel(logging.NOTSET)
        lg.propagate = True
        for h in list(lg.handlers):
            if getattr(h, "_verif_sink", False):
                lg.removeHandler(h)
    os.environ["TZ"] = (amb or {}).get("tz") or "UTC"
    time.tzset()


def _ambient_call(w):
    fn, job, amb = w
    apply_ambient(amb)
    try:
        st = fn(job)
    finally:
        apply_ambient(None)
    if amb:
        st.labels["shards run in ambient " + canon(amb)] += 1
        for k, (size, case, detail) in list(st.failures.items()):
            st.failures[k] = (size, {"__ambient__": amb, "case": case}, f"{detail} [ambient environment {canon(amb)}]")
    return st


# ---------------------------------------------------------------------------
# Hypothesis glue
# ---------------------------------------------------------------------------
def hyp_settings(max_examples, shrink=False, **kw):
    from hypothesis import settings, HealthCheck, Phase

    phases = [Phase.generate, Phase.target]
    if shrink:
        phases.append(Phase.shrink)
    return settings(
        max_examples=max_examples,
        database=None,
        deadline=None,
        report_multiple_bugs=False,
        derandomize=False,
        suppress_health_check=list(HealthCheck),
        phases=phases,
        **kw,
    )


def hyp_run(strategy, body, n, seed_value, stats=None):
    """Run body(value) on n generated values; body records, never raises for property failures.

    An exception escaping the body that is not a HarnessError is recorded (when `stats` is given) as a failure of its
    own kind for that case instead of aborting the whole run: every check is quiet on the unchanged tree, so on a
    changed tree such an exception is the library misbehaving in a way the body did not anticipate (and the replay
    file lets anyone confirm it), while everything else keeps being explored."""
    import traceback as _tb

    from hypothesis import given, seed

    @seed(seed_value)
    @hyp_settings(n)
    @given(strategy)
    def _t(v):
        if stats is None:
            body(v)
            return
        try:
            body(v)
        except HarnessError:
            raise
        except Exception as e:
            frames = _tb.extract_tb(e.__traceback__)
            where = next((f"{os.path.basename(f.filename)}:{f.name}" for f in reversed(frames) if "/pbt/" in f.filename), "?")
            stats.fail(f"unexpected-exception/{type(e).__name__}/{where}", v, "".join(_tb.format_exception_only(type(e), e))[-500:] + " at " + " <- ".join(f"{os.path.basename(f.filename)}:{f.lineno}" for f in list(reversed(frames))[:6]))

    _t()


def hyp_shrink(strategy, predicate, seed_value, max_examples=2000):
    """Minimal example satisfying predicate, or None."""
    import random
    from hypothesis import find
    from hypothesis.errors import NoSuchExample

    try:
        return find(
            strategy,
            predicate,
            settings=hyp_settings(max_examples, shrink=True),
            random=random.Random(seed_value),
        )
    except NoSuchExample:
        return None
    except Exception:  # shrinker trouble is never a violation
        return None


# ---------------------------------------------------------------------------
# Known findings
# ---------------------------------------------------------------------------
def load_known(pid):
    path = VERIF / "known_findings.json"
    if not path.exists():
        return []
    data = json.loads(path.read_text())
    return [e for e in data.get("findings", []) if e.get("property") == pid]


def open_keys(pid):
    return {e["key"] for e in load_known(pid) if e.get("status") == "open"}


# ---------------------------------------------------------------------------
# Driver
# ---------------------------------------------------------------------------
def write_replay(pid, key, case, detail):
    d = Path(os.environ.get("VERIF_REPLAY_DIR") or (VERIF / "replays")) / pid
    d.mkdir(parents=True, exist_ok=True)
    name = "".join(c if c.isalnum() or c in "-_" else "_" for c in key)[:80]
    path = d / f"{name}.json"
    path.write_text(json.dumps({"property": pid, "key": key, "case": case, "detail": detail}, indent=1, default=repr) + "\n")
    return path


def finish(ctx: Ctx, mod) -> int:
    pid = ctx.pid
    known = load_known(pid)
    open_by_key = {e["key"]: e for e in known if e.get("status") == "open"}
    violations = []
    known_hits = []
    for key, (size, case, detail) in sorted(ctx.failures.items()):
        if key in open_by_key:
            known_hits.append(key)
        else:
            path = write_replay(pid, key, case, detail)
            violations.append((key, path, detail))

    # Open findings: run their probe; print KNOWN-FINDING if still failing.
    for key, e in sorted(open_by_key.items()):
        still = key in known_hits
        if not still and "probe" in e and hasattr(mod, "check_case"):
            try:
                res = mod.check_case(e["probe"])
                still = any(k == key for k, _ in res)
                for k, d in res:
                    if k != key and k not in open_by_key:
                        path = write_replay(pid, k, e["probe"], d)
                        violations.append((k, path, d))
            except Exception as ex:  # harness trouble
                raise HarnessError(f"probe for {key} crashed: {ex!r}") from ex
        if still:
            print(f"KNOWN-FINDING: property={pid} {key}: {e.get('what', '')}")
        else:
            print(f"NOTE: known finding {key} no longer reproduces (property={pid})")

    wall = time.time() - ctx.t0
    cov = {
        "evaluations": ctx.evaluations,
        "distinct_nontrivial": ctx.n_nontrivial,
        "rule": getattr(mod, "RULE", ""),
        "samples": ctx.samples[: Stats.MAX_SAMPLES] or ["(none)"],
        "labels": dict(sorted(ctx.labels.items(), key=lambda kv: (-kv[1], kv[0]))[:80]),
        "exception_types": dict(ctx.exceptions),
        "excluded_by_construction": dict(ctx.excluded),
        "failure_signatures": dict(ctx.fail_counts),
        "known_findings_reproduced": sorted(known_hits),
    }
    if ctx.exhaustive is not None:
        cov["exhaustive"] = bool(ctx.exhaustive)
    cov.update(ctx.notes)
    ev = {
        "property_id": pid,
        "tier": ctx.tier,
        "seed": ctx.seed,
        "level": getattr(mod, "LEVEL", "exploration"),
        "coverage": cov,
        "assumptions": getattr(mod, "ASSUMPTIONS", []),
        "wall_s": round(wall, 2),
        "violations": len(violations),
    }
    evdir = Path(os.environ.get("VERIF_EVIDENCE_DIR") or (VERIF / "evidence"))
    evdir.mkdir(parents=True, exist_ok=True)
    (evdir / f"{pid}.json").write_text(json.dumps(ev, indent=1, default=repr, sort_keys=True) + "\n")

    for key, path, detail in violations:
        rel = os.path.relpath(path, VERIF) if str(path).startswith(str(VERIF)) else str(path)
        print(f"VIOLATION property={pid} replay={rel} key={key} :: {detail[:300]}")
    print(
        f"[{pid}] tier={ctx.tier} seed={ctx.seed} evaluations={ctx.evaluations} "
        f"distinct_nontrivial={ctx.n_nontrivial} violations={len(violations)} "
        f"known={len(known_hits)} wall={wall:.1f}s"
    )
    return 1 if violations else 0


def replay(mod, path) -> int:
    data = json.loads(Path(path).read_text())
    case = data["case"]
    if isinstance(case, dict) and "__ambient__" in case:
        apply_ambient(case["__ambient__"])
        case = case["case"]
    try:
        res = mod.check_case(case)
    except HarnessError:
        raise
    except Exception as e:  # same convention as hyp_run: the case makes the library misbehave in an unanticipated way
        res = [(f"unexpected-exception/{type(e).__name__}", repr(e))]
    okeys = open_keys(mod.PID)
    bad = [(k, d) for k, d in res if k not in okeys]
    for k, d in res:
        if k in okeys:
            print(f"KNOWN-FINDING: property={mod.PID} {k}")
    for k, d in bad:
        print(f"VIOLATION property={mod.PID} replay={path} key={k} :: {d[:300]}")
    if not res:
        print(f"[{mod.PID}] replay {path}: property holds on this case")
    return 1 if bad else 0


def main(argv=None) -> int:
    import argparse
    import importlib

    ap = argparse.ArgumentParser()
    ap.add_argument("pid")
    ap.add_argument("--tier", default=os.environ.get("VERIF_TIER", "quick"), choices=["quick", "thorough"])
    ap.add_argument("--replay")
    ap.add_argument("--replay-dir", action="store_true", help="replay every saved input of this property")
    args = ap.parse_args(argv)

    if os.environ.get("PYTHONHASHSEED") != "0":
        env = dict(os.environ, PYTHONHASHSEED="0", PYTHONWARNINGS="ignore")
        os.execve(sys.executable, [sys.executable, "-m", "pbt.run", *(argv or sys.argv[1:])], env)

    # the library derives its data / config / log directories from XDG_* at import time: give every run
    # its own empty ones (removed at exit), so no check ever touches the user's real directories
    import atexit
    import shutil
    import tempfile

    if "VERIF_XDG_ROOT" not in os.environ:
        root = tempfile.mkdtemp(prefix="verif_xdg_")
        os.environ["VERIF_XDG_ROOT"] = root
        atexit.register(shutil.rmtree, root, True)
    root = os.environ["VERIF_XDG_ROOT"]
    for var, sub in (("XDG_CONFIG_HOME", "config"), ("XDG_DATA_HOME", "data"), ("XDG_CACHE_HOME", "cache")):
        os.environ[var] = os.path.join(root, sub)
    os.environ["HOME"] = os.path.join(root, "home")

    try:
        seed = int(os.environ.get("VERIF_SEED", "1") or "1")
    except ValueError:
        seed = 1
    try:
        setup_path()
        mod = importlib.import_module(f"pbt.checks.{args.pid.lower()}")
        if args.replay:
            return replay(mod, args.replay)
        ctx = Ctx(args.pid.upper(), args.tier, seed)
        # regression tier: saved replays of *fixed* findings and earlier violations
        for e in load_known(ctx.pid):
            if e.get("status") == "fixed" and "probe" in e:
                try:
                    res = mod.check_case(e["probe"])
                except Exception:
                    # the probe no longer fits the code (renamed attribute...): the main search covers it
                    ctx.label("regression-probe-not-applicable")
                    continue
                for k, d in res:
                    ctx.fail(k, e["probe"], d)
                ctx.label("regression-probe")
        mod.run(ctx)
        return finish(ctx, mod)
    except HarnessError as e:
        print(f"HARNESS-ERROR {args.pid}: {e}", file=sys.stderr)
        traceback.print_exc()
        return 2
    except Exception as e:  # anything unexpected in the machinery is NOT a violation
        print(f"HARNESS-ERROR {args.pid}: unexpected {e!r}", file=sys.stderr)
        traceback.print_exc()
        return 2
