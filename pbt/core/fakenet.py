"""
In-process fake HTTP under urllib's protocol handlers (+ socket guard), and builders of
server-side fixtures (profile / account-info responses) rendered by the harness.

Only HTTPHandler.http_open / HTTPSHandler.https_open are replaced: urllib's request
pre-processors (Content-Length, Host, cookie processor, error processor) stay real.
"""
from __future__ import annotations

import copy
import http.client
import io
import socket
import urllib.request
import urllib.response
import xml.etree.ElementTree as ET

from pbt.core import harness as H
from pbt.core import modelgen as M
from pbt.core import docgen as D


class FakeNet:
    def __init__(self, responder):
        """responder(record) -> (status:int, [(header, value)], body:bytes) or raises an Exception (transport error)."""
        self.responder = responder
        self.log = []
        self.socket_attempts = []
        self._saved = None

    # -- installation -------------------------------------------------------
    def __enter__(self):
        net = self

        def _open(handler, req):
            rec = {
                "method": req.get_method(),
                "url": req.full_url,
                "headers": {k.lower(): v for k, v in req.header_items()},
                "data": req.data if isinstance(req.data, (bytes, type(None))) else bytes(req.data),
                "n": len(net.log),
            }
            net.log.append(rec)
            status, headers, body = net.responder(rec)
            raw = "".join(f"{k}: {v}\r\n" for k, v in headers) + "\r\n"
            msg = http.client.parse_headers(io.BytesIO(raw.encode("latin_1")))
            resp = urllib.response.addinfourl(io.BytesIO(body), msg, req.full_url, status)
            resp.msg = "OK" if status < 400 else "ERR"
            return resp

        def _connect(sock, addr):
            net.socket_attempts.append(addr)
            raise OSError("network access attempted during a check (sandbox guard)")

        self._saved = (urllib.request.HTTPHandler.http_open, urllib.request.HTTPSHandler.https_open, socket.socket.connect)
        urllib.request.HTTPHandler.http_open = _open
        urllib.request.HTTPSHandler.https_open = _open
        socket.socket.connect = _connect
        return self

    def __exit__(self, *exc):
        urllib.request.HTTPHandler.http_open, urllib.request.HTTPSHandler.https_open, socket.socket.connect = self._saved
        return False


# ---------------------------------------------------------------------------
# fixtures
# ---------------------------------------------------------------------------
HDR_V2 = '<?xml version="1.0" encoding="UTF-8" standalone="no"?>\r\n<?OFX OFXHEADER="200" VERSION="203" SECURITY="NONE" OLDFILEUID="NONE" NEWFILEUID="NONE"?>\r\n'


def render(desc) -> bytes:
    tree = D.to_etree(desc, parser_like=False)
    return HDR_V2.encode() + ET.tostring(tree, encoding="utf_8", method="html")


def dt_tag(y, mo=1, d=1, h=0, mi=0, s=0):
    return ["dt", y, mo, d, h, mi, s, 0, 0, None]


def sonrs():
    U = M.universe()
    d = M.minimal(U["SONRS"])
    d["kw"]["status"] = {"cls": "STATUS", "kw": {"code": ["int", 0], "severity": ["tok", "INFO"]}, "list": []}
    return d


def profile_response(urls, dtprofup, code=0, closing=True, extra_finame="Fixture Bank", sonrs_dtprofup=None, sonrs_status=None):
    """urls: {"BANKMSGSET": url, "CREDITCARDMSGSET": url, "INVSTMTMSGSET": url} (any subset);
    code 0 -> PROFRS with DTPROFUP; code 1 -> 'up to date' (no PROFRS); other -> error status, no PROFRS."""
    U = M.universe()
    ofx = {"cls": "OFX", "kw": {}, "list": []}
    so = sonrs()
    if sonrs_status is not None:
        # (code, severity) of the sign-on response: independent of the status of the profile transaction
        so["kw"]["status"] = {"cls": "STATUS", "kw": {"code": ["int", sonrs_status[0]], "severity": ["tok", sonrs_status[1]]}, "list": []}
    if sonrs_dtprofup is not None:
        # the sign-on response has a DTPROFUP of its own (document order: before the one of PROFRS)
        so["kw"]["dtprofup"] = sonrs_dtprofup
    ofx["kw"]["signonmsgsrsv1"] = {"cls": "SIGNONMSGSRSV1", "kw": {"sonrs": so}, "list": []}
    trn = {"cls": "PROFTRNRS", "kw": {"trnuid": ["str", "1"], "status": {"cls": "STATUS", "kw": {"code": ["int", code], "severity": ["tok", "INFO" if code in (0, 1) else "ERROR"]}, "list": []}}, "list": []}
    if code == 0:
        prof = M.minimal(U["PROFRS"])
        msl = {"cls": "MSGSETLIST", "kw": {}, "list": []}
        for name, url in urls.items():
            ms = M.minimal(U[name])
            v1 = next(iter(ms["kw"].values()))
            v1["kw"]["msgsetcore"]["kw"]["url"] = ["str", url]
            if "closingavail" in {a for a, k, t in M.decl(U[v1["cls"]])}:
                v1["kw"]["closingavail"] = ["bool", closing]
            msl["list"].append(ms)
        prof["kw"]["msgsetlist"] = msl
        prof["kw"]["dtprofup"] = dtprofup
        prof["kw"]["finame"] = ["str", extra_finame]
        trn["kw"]["profrs"] = prof
    ofx["kw"]["profmsgsrsv1"] = {"cls": "PROFMSGSRSV1", "kw": {}, "list": [trn]}
    return render(ofx)


def acctinfo_response(accounts, dtacctup=None):
    """accounts: list of {"kind": "bank"|"cc"|"inv"|"bp", "acctid", "accttype"?, "bankid"?, "brokerid"?, "status": AVAIL|PEND|ACTIVE, "group": int}
    accounts with the same group share one ACCTINFO wrapper (at most one per service there)."""
    U = M.universe()
    ofx = {"cls": "OFX", "kw": {}, "list": []}
    ofx["kw"]["signonmsgsrsv1"] = {"cls": "SIGNONMSGSRSV1", "kw": {"sonrs": sonrs()}, "list": []}
    infos = {}
    for a in accounts:
        info = infos.setdefault(a["group"], {"cls": "ACCTINFO", "kw": {}, "list": []})
        k = a["kind"]
        if k == "bank":
            m = M.minimal(U["BANKACCTINFO"])
            m["kw"]["bankacctfrom"]["kw"].update(bankid=["str", a["bankid"]], acctid=["str", a["acctid"]], accttype=["tok", a["accttype"]])
        elif k == "cc":
            m = M.minimal(U["CCACCTINFO"])
            m["kw"]["ccacctfrom"]["kw"].update(acctid=["str", a["acctid"]])
        elif k == "inv":
            m = M.minimal(U["INVACCTINFO"])
            m["kw"]["invacctfrom"]["kw"].update(brokerid=["str", a["brokerid"]], acctid=["str", a["acctid"]])
        else:
            m = M.minimal(U["BPACCTINFO"])
            m["kw"]["bankacctfrom"]["kw"].update(bankid=["str", a["bankid"]], acctid=["str", a["acctid"]], accttype=["tok", a.get("accttype", "CHECKING")])
        m["kw"]["svcstatus"] = ["tok", a["status"]]
        # what else the server says about the account (transaction download, transfer source / destination) is not what
        # "ACTIVE" means
        for i, flag in enumerate(("suptxdl", "xfersrc", "xferdest")):
            if flag in m["kw"] and "caps" in a:
                m["kw"][flag] = ["bool", bool(a["caps"] >> i & 1)]
        info["list"].append(m)
    rs = {"cls": "ACCTINFORS", "kw": {"dtacctup": dtacctup or dt_tag(2020)}, "list": [infos[g] for g in sorted(infos)]}
    trn = {"cls": "ACCTINFOTRNRS", "kw": {"trnuid": ["str", "1"], "status": {"cls": "STATUS", "kw": {"code": ["int", 0], "severity": ["tok", "INFO"]}, "list": []}, "acctinfors": rs}, "list": []}
    ofx["kw"]["signupmsgsrsv1"] = {"cls": "SIGNUPMSGSRSV1", "kw": {}, "list": [trn]}
    return render(ofx)
