"""Runs the supplementary atheris/libFuzzer campaign (fuzz/fuzz_body.py) as a subprocess and returns its findings."""
from __future__ import annotations

import json
import os
import shutil
import subprocess
import sys
import tempfile
from pathlib import Path

from pbt.core import harness as H

SEEDS = [
    "<OFX><A>x</A><B><C>y</C></B></OFX>",
    "<OFX>\r\n<A>x\r\n<B>\r\n<C><![CDATA[y]]></C>\r\n</B>\r\n</OFX>",
    "<OFX><SIGNONMSGSRSV1><SONRS><STATUS><CODE>0<SEVERITY>INFO</STATUS><DTSERVER>20200101<LANGUAGE>ENG</SONRS></SIGNONMSGSRSV1></OFX>",
    "<A><B></B><INTU.BID>1</INTU.BID><C>a &amp; b</C></A>",
    "<A><B><C>x</C></B><B><C>y</C><D></D></B></A>",
]


def available():
    deps = H.VERIF / ".deps"
    env = dict(os.environ, PYTHONPATH=str(deps))
    p = subprocess.run([sys.executable, "-c", "import atheris"], env=env, capture_output=True)
    return p.returncode == 0


def campaign(only, runs, seed, max_len=300):
    """Two libFuzzer runs - 2/3 of the budget from a few small valid bodies, 1/3 from an empty corpus (the starting
    corpus changes what a fuzzer finds) -> dict(status, counts, finding?)"""
    if not available():
        return {"status": "skipped: atheris is not installed (MANIFEST.setup_cmd installs it into .deps from the offline wheelhouse)"}
    total = {"status": "", "runs": runs, "counts": {}, "parts": {}}
    for part, n in (("seeded-corpus", runs - runs // 3), ("empty-corpus", runs // 3)):
        res = _one(only, n, seed, max_len, part == "seeded-corpus")
        total["parts"][part] = {"status": res["status"], "runs": n}
        total["status"] = (total["status"] + "; " if total["status"] else "") + f"{part}: {res['status']}"
        for k, v in res.get("counts", {}).items():
            if isinstance(v, (int, float)):
                total["counts"][k] = total["counts"].get(k, 0) + v
        if "finding" in res and "finding" not in total:
            total["finding"] = res["finding"]
    return total


def _one(only, runs, seed, max_len, seeded):
    tmp = Path(tempfile.mkdtemp(prefix="verif_fuzz_"))
    try:
        corpus, out = tmp / "corpus", tmp / "out"
        corpus.mkdir()
        if seeded:
            for i, s in enumerate(SEEDS):
                (corpus / f"seed{i}").write_bytes(s.encode())
        cmd = [sys.executable, str(H.VERIF / "fuzz" / "fuzz_body.py"), str(out), str(corpus), f"-runs={runs}", f"-seed={seed % (2**31 - 1) + 1}", f"-max_len={max_len}", f"-dict={H.VERIF / 'fuzz' / 'ofx.dict'}"]
        env = dict(os.environ, VERIF_FUZZ_ONLY=only)
        p = subprocess.run(cmd, env=env, capture_output=True, text=True, timeout=3600)
        res = {"status": f"exit {p.returncode}", "runs": runs}
        if (out / "counts.json").exists():
            res["counts"] = json.loads((out / "counts.json").read_text())
        if (out / "finding-0.json").exists():
            res["finding"] = json.loads((out / "finding-0.json").read_text())
        elif p.returncode != 0:
            res["status"] = f"fuzzer failed (exit {p.returncode}): {p.stderr[-300:]}"
        return res
    finally:
        shutil.rmtree(tmp, ignore_errors=True)
