"""
Independent validator: does a model *instance* satisfy every constraint its class declares or inherits?
(required children, exclusivity groups incl. groups inherited from every base, token sets, string lengths,
integer digits, member types, plus the hand-tabled custom constraints.)  Reads declarations via modelgen.decl.
"""
from __future__ import annotations

from pbt.core import modelgen as M


def _present(inst, attr, cls):
    mt = M.member_types(cls)
    if attr in mt:
        name = mt[attr].__name__
        return any(type(m).__name__ == name for m in list.__iter__(inst))
    return M.stored(inst, attr) is not None


def violations(inst, path="", deep=True):
    from ofxtools import Types
    from ofxtools.models.base import Aggregate

    cls = type(inst)
    p = path + "/" + cls.__name__
    out = []
    for attr, kind, t in M.decl(cls):
        if kind in ("listagg", "listelem", "unsupported"):
            continue
        v = M.stored(inst, attr)
        if v is None:
            if t.required:
                out.append(f"{p}.{attr}: required child missing")
            continue
        if kind == "sub":
            if not isinstance(v, t.__type__):
                out.append(f"{p}.{attr}: holds {type(v).__name__}, declared {t.__type__.__name__}")
            elif deep:
                out += violations(v, p + "." + attr)
            continue
        out += _scalar_violations(t, v, f"{p}.{attr}")
    opt, req = M.mutex_groups(cls)
    for g in opt:
        n = sum(_present(inst, a, cls) for a in g)
        if n > 1:
            out.append(f"{p}: {n} members of at-most-one group {list(g)}")
    for g in req:
        n = sum(_present(inst, a, cls) for a in g)
        if n != 1:
            out.append(f"{p}: {n} members of exactly-one group {list(g)}")
    mt = {c.__name__ for c in M.member_types(cls).values()}
    le = M.list_elem(cls)
    for i, m in enumerate(list.__iter__(inst)):
        if isinstance(m, Aggregate):
            if type(m).__name__ not in mt:
                out.append(f"{p}[{i}]: member type {type(m).__name__} not permitted")
            elif deep:
                out += violations(m, f"{p}[{i}]")
        else:
            if le is None:
                out.append(f"{p}[{i}]: scalar member {m!r} in an aggregate list")
            else:
                out += _scalar_violations(le[1].converter, m, f"{p}[{i}]")
    out += _custom(inst, p)
    return out


def _scalar_violations(t, v, where):
    from ofxtools import Types
    import datetime as dt
    import decimal

    out = []
    if isinstance(t, Types.Bool):
        if not isinstance(v, bool):
            out.append(f"{where}: {v!r} is not a bool")
    elif isinstance(t, Types.String):
        if not isinstance(v, str):
            out.append(f"{where}: {v!r} is not a str")
        elif t.length is not None and t.strict and len(v) > t.length:
            out.append(f"{where}: string of length {len(v)} exceeds {t.length}")
    elif isinstance(t, Types.OneOf):
        if v not in t.valid:
            out.append(f"{where}: token {v!r} not in the declared set")
    elif isinstance(t, Types.Integer):
        if not isinstance(v, int) or isinstance(v, bool):
            out.append(f"{where}: {v!r} is not an int")
        elif t.length is not None and abs(v) >= 10**t.length:
            out.append(f"{where}: integer {v} has more than {t.length} digits")
    elif isinstance(t, Types.Decimal):
        if not isinstance(v, decimal.Decimal):
            out.append(f"{where}: {v!r} is not a Decimal")
    elif isinstance(t, Types.Time):
        if not isinstance(v, dt.time) or v.utcoffset() is None:
            out.append(f"{where}: {v!r} is not an aware time")
    elif isinstance(t, Types.DateTime):
        if not isinstance(v, dt.datetime) or v.utcoffset() is None:
            out.append(f"{where}: {v!r} is not an aware datetime")
    return out


def _custom(inst, p):
    name = type(inst).__name__
    g = lambda a: M.stored(inst, a)
    members = list(list.__iter__(inst))
    out = []
    if name in ("CONTRIBINFO", "MFACHALLENGERS", "MSGSETCORE", "MSGSETLIST", "TAX1099MSGSRQV1", "TAX1099MSGSRSV1", "TAX1099MSGSETV1", "ACCTINFO"):
        if not members:
            out.append(f"{p}: must contain at least one list member")
    if name == "ACCTINFO":
        names = [type(m).__name__ for m in members]
        if len(names) != len(set(names)):
            out.append(f"{p}: more than one *ACCTINFO of the same service")
    if name == "TAX1099RS":
        if not any(type(m).__name__.startswith("TAX1099") for m in members):
            out.append(f"{p}: must contain at least one TAX1099 form")
    if name == "CONTRIBSECURITY":
        keys = [a for a, kind, t in M.decl(type(inst)) if kind == "elem" and g(a) is not None]
        if {k[-3:] for k in keys} - {"pct", "amt"} or len({k[-3:] for k in keys}) > 1:
            out.append(f"{p}: mixed *PCT and *AMT")
        if not keys:
            out.append(f"{p}: at least one source must be provided")
    if name == "EXTDPAYEE":
        if g("payeeid") and not (g("idscope") and g("name")):
            out.append(f"{p}: payeeid requires idscope and name")
    if name == "EXTDPMT":
        if g("extdpmtdsc") is None and not any(type(m).__name__ == "EXTDPMTINV" for m in members):
            out.append(f"{p}: needs EXTDPMTDSC or EXTDPMTINV")
    if name == "OFX":
        present = [a for a, kind, t in M.decl(type(inst)) if kind == "sub" and g(a) is not None]
        if len({a[-4:] for a in present}) > 1:
            out.append(f"{p}: mixed request and response message sets")
    if name == "SONRQ":
        if not ((g("userid") and g("userpass")) or g("userkey")) or ((g("userid") or g("userpass")) and g("userkey")):
            out.append(f"{p}: needs USERID+USERPASS xor USERKEY")
    if name == "TAX1099MISC_V100":
        if g("sttaxwh") is not None and g("payerstate") is None:
            out.append(f"{p}: payerstate required with sttaxwh")
        if g("sttaxwh") is not None and any(type(m).__name__ == "ADDLSTTAXWHAGG" for m in members):
            out.append(f"{p}: sttaxwh and ADDLSTTAXWHAGG exclude each other")
    if name in ("TAX1099INT_V100", "TAX1099DIV_V100"):
        if g("forcnt") is not None and any(type(m).__name__ == "FORINCOME" for m in members):
            out.append(f"{p}: forcnt and FORINCOME exclude each other")
    if name == "TAX1099R_V100":
        if any(g(a) is not None for a in ("grossdist", "taxamt", "fedtaxwh", "sttaxwh", "lcltaxwh")) and g("irasepsimp") is None:
            out.append(f"{p}: irasepsimp required")
    return out


def tree_violations(elem, cls=None, path=""):
    """Sequence-order / repetition rules of a class applied to an element tree (independent of the library):
    declared children must appear in declaration order, a non-repeatable child at most once; list members may be
    interleaved with each other in any order; tags the class does not declare are ignored (C07)."""
    if cls is None:
        cls = M.universe().get(elem.tag)
        if cls is None:
            return []
    out = []
    p = path + "/" + cls.__name__
    pos = {}
    kinds = {}
    for i, (attr, kind, t) in enumerate(M.decl(cls)):
        tag = M.tag_of(cls, attr) if kind != "listagg" else t.__type__.__name__
        pos[tag] = i
        kinds[tag] = (kind, t)
    prev = None  # (index, is_list)
    seen = set()
    for child in elem:
        if "." in child.tag or child.tag not in pos:
            continue
        i = pos[child.tag]
        kind, t = kinds[child.tag]
        is_list = kind in ("listagg", "listelem")
        if not is_list:
            if child.tag in seen:
                out.append(f"{p}: <{child.tag}> occurs twice")
            seen.add(child.tag)
        if prev is not None and i <= prev[0] and not (is_list and prev[1]) and not (not is_list and child.tag in seen and i == prev[0]):
            out.append(f"{p}: <{child.tag}> after a child declared later")
        prev = (i, is_list)
        if kind in ("sub", "listagg") and len(child):
            out += tree_violations(child, t.__type__, p)
    return out
