"""
Independent reader of composed OFX *requests*: header + body bytes -> a plain "story"
(what the request says), using refofx / reftypes only.  Also the same story from a library model.
"""
from __future__ import annotations

import re

from pbt.core import refofx as X
from pbt.core import reftypes as R


def split_file(data: bytes):
    """-> (kind 1|2, fields dict, body text) by an own header reader; raises ValueError."""
    text = data.decode("utf_8")
    if text.startswith("<?xml"):
        m = re.match(r'<\?xml version="1\.0" encoding="UTF-8" standalone="no"\?>\r\n<\?OFX ((?:[A-Z]+="[^"]*" ?)+)\?>\r\n', text)
        if not m:
            raise ValueError("not a v2 header")
        fields = dict(re.findall(r'([A-Z]+)="([^"]*)"', m.group(1)))
        return 2, fields, text[m.end():]
    m = re.match(r"((?:[A-Z]+:[^\r\n]*\r\n){9})\r\n", text)
    if not m:
        raise ValueError("not a v1 header")
    fields = dict(ln.split(":", 1) for ln in m.group(1).split("\r\n") if ln)
    return 1, fields, text[m.end():]


class Node:
    def __init__(self, plain):
        self.tag, self.data, kids = plain
        self.kids = [Node(k) for k in kids]

    def all(self, tag):
        return [k for k in self.kids if k.tag == tag]

    def one(self, tag):
        ks = self.all(tag)
        if len(ks) > 1:
            raise ValueError(f"<{tag}> occurs {len(ks)} times in <{self.tag}>")
        return ks[0] if ks else None

    def text(self, tag):
        k = self.one(tag)
        if k is None:
            return None
        if k.data is None:
            raise ValueError(f"<{tag}> has no data")
        return R.decode_entities(k.data)

    def tags(self):
        return [k.tag for k in self.kids]


def dt_instant(text):
    """Instant (us) of a date-time as the library writes it, else ValueError."""
    if text is None:
        return None
    p = R.parse_written_dt(text)
    if p is None:
        raise ValueError(f"not a canonical date-time: {text!r}")
    return p[0]


def yn(text):
    if text is None:
        return None
    if text not in ("Y", "N"):
        raise ValueError(f"not Y/N: {text!r}")
    return text == "Y"


def story_from_bytes(data: bytes):
    kind, fields, body = split_file(data)
    tree = X.read_lenient(body)
    if tree is None:
        raise ValueError(f"body not well-formed: {X.classify(body)[1]}")
    root = Node(tree)
    if root.tag != "OFX":
        raise ValueError("root is not OFX")
    st = {"header_kind": kind, "version": int(fields["VERSION"]), "newfileuid": fields.get("NEWFILEUID"), "msgsets": root.tags()}
    so = root.one("SIGNONMSGSRQV1")
    sonrqs = so.all("SONRQ") if so else []
    if len(sonrqs) != 1:
        raise ValueError(f"{len(sonrqs)} SONRQ")
    s = sonrqs[0]
    fi = s.one("FI")
    st["signon"] = {
        "userid": s.text("USERID"), "userpass": s.text("USERPASS"), "language": s.text("LANGUAGE"),
        "appid": s.text("APPID"), "appver": s.text("APPVER"), "clientuid": s.text("CLIENTUID"),
        "org": fi.text("ORG") if fi else None, "fid": fi.text("FID") if fi else None, "has_fi": fi is not None,
        "dtclient_valid": dt_instant(s.text("DTCLIENT")) is not None,
    }
    trnuids = []
    reqs = {"stmt": [], "stmtend": [], "ccstmt": [], "ccstmtend": [], "invstmt": [], "acctinfo": [], "prof": [], "tax1099": []}
    other_wrappers = []

    def inctran(n):
        if n is None:
            return None
        return {"dtstart": dt_instant(n.text("DTSTART")), "dtend": dt_instant(n.text("DTEND")), "include": yn(n.text("INCLUDE"))}

    for ms in root.kids:
        if ms.tag == "SIGNONMSGSRQV1":
            continue
        for w in ms.kids:
            if w.data is not None:
                other_wrappers.append(ms.tag + "/" + w.tag)
                continue
            tu = w.text("TRNUID")
            trnuids.append(tu)
            key = (ms.tag, w.tag)
            if key == ("BANKMSGSRQV1", "STMTTRNRQ"):
                rq = w.one("STMTRQ")
                a = rq.one("BANKACCTFROM")
                reqs["stmt"].append({"bankid": a.text("BANKID"), "acctid": a.text("ACCTID"), "accttype": a.text("ACCTTYPE"), "inctran": inctran(rq.one("INCTRAN"))})
            elif key == ("BANKMSGSRQV1", "STMTENDTRNRQ"):
                rq = w.one("STMTENDRQ")
                a = rq.one("BANKACCTFROM")
                reqs["stmtend"].append({"bankid": a.text("BANKID"), "acctid": a.text("ACCTID"), "accttype": a.text("ACCTTYPE"), "dtstart": dt_instant(rq.text("DTSTART")), "dtend": dt_instant(rq.text("DTEND"))})
            elif key == ("CREDITCARDMSGSRQV1", "CCSTMTTRNRQ"):
                rq = w.one("CCSTMTRQ")
                reqs["ccstmt"].append({"acctid": rq.one("CCACCTFROM").text("ACCTID"), "inctran": inctran(rq.one("INCTRAN"))})
            elif key == ("CREDITCARDMSGSRQV1", "CCSTMTENDTRNRQ"):
                rq = w.one("CCSTMTENDRQ")
                reqs["ccstmtend"].append({"acctid": rq.one("CCACCTFROM").text("ACCTID"), "dtstart": dt_instant(rq.text("DTSTART")), "dtend": dt_instant(rq.text("DTEND"))})
            elif key == ("INVSTMTMSGSRQV1", "INVSTMTTRNRQ"):
                rq = w.one("INVSTMTRQ")
                a = rq.one("INVACCTFROM")
                ip = rq.one("INCPOS")
                reqs["invstmt"].append({
                    "brokerid": a.text("BROKERID"), "acctid": a.text("ACCTID"), "inctran": inctran(rq.one("INCTRAN")),
                    "incoo": yn(rq.text("INCOO")), "incbal": yn(rq.text("INCBAL")),
                    "incpos": {"dtasof": dt_instant(ip.text("DTASOF")), "include": yn(ip.text("INCLUDE"))} if ip else None,
                })
            elif key == ("SIGNUPMSGSRQV1", "ACCTINFOTRNRQ"):
                reqs["acctinfo"].append({"dtacctup": dt_instant(w.one("ACCTINFORQ").text("DTACCTUP"))})
            elif key == ("PROFMSGSRQV1", "PROFTRNRQ"):
                rq = w.one("PROFRQ")
                reqs["prof"].append({"clientrouting": rq.text("CLIENTROUTING"), "dtprofup": dt_instant(rq.text("DTPROFUP"))})
            elif key == ("TAX1099MSGSRQV1", "TAX1099TRNRQ"):
                rq = w.one("TAX1099RQ")
                reqs["tax1099"].append({"acctnum": rq.text("ACCTNUM"), "recid": rq.text("RECID"), "years": [R.decode_entities(k.data) for k in rq.all("TAXYEAR")]})
            else:
                other_wrappers.append(ms.tag + "/" + w.tag)
    st["requests"] = reqs
    st["trnuids"] = trnuids
    st["other_wrappers"] = other_wrappers
    return st


def _inst(v):
    return None if v is None else R.py_instant_us(v)


def story_from_model(header, ofx):
    """The same story told by the library's parse+convert of the same bytes."""
    from pbt.core import modelgen as M

    g = M.stored
    so = g(g(ofx, "signonmsgsrqv1"), "sonrq")
    fi = g(so, "fi")
    st = {"version": header.version, "signon": {
        "userid": g(so, "userid"), "userpass": g(so, "userpass"), "language": g(so, "language"), "appid": g(so, "appid"), "appver": g(so, "appver"),
        "clientuid": g(so, "clientuid"), "org": g(fi, "org") if fi is not None else None, "fid": g(fi, "fid") if fi is not None else None, "has_fi": fi is not None,
        "dtclient_valid": g(so, "dtclient") is not None}}
    reqs = {"stmt": [], "stmtend": [], "ccstmt": [], "ccstmtend": [], "invstmt": [], "acctinfo": [], "prof": [], "tax1099": []}
    trnuids = []

    def inctran(n):
        if n is None:
            return None
        return {"dtstart": _inst(g(n, "dtstart")), "dtend": _inst(g(n, "dtend")), "include": g(n, "include")}

    for attr, kind, t in M.decl(type(ofx)):
        ms = g(ofx, attr) if kind == "sub" else None
        if ms is None or attr == "signonmsgsrqv1":
            continue
        for w in list.__iter__(ms):
            n = type(w).__name__
            trnuids.append(g(w, "trnuid"))
            if n == "STMTTRNRQ":
                rq = g(w, "stmtrq"); a = g(rq, "bankacctfrom")
                reqs["stmt"].append({"bankid": g(a, "bankid"), "acctid": g(a, "acctid"), "accttype": g(a, "accttype"), "inctran": inctran(g(rq, "inctran"))})
            elif n == "STMTENDTRNRQ":
                rq = g(w, "stmtendrq"); a = g(rq, "bankacctfrom")
                reqs["stmtend"].append({"bankid": g(a, "bankid"), "acctid": g(a, "acctid"), "accttype": g(a, "accttype"), "dtstart": _inst(g(rq, "dtstart")), "dtend": _inst(g(rq, "dtend"))})
            elif n == "CCSTMTTRNRQ":
                rq = g(w, "ccstmtrq")
                reqs["ccstmt"].append({"acctid": g(g(rq, "ccacctfrom"), "acctid"), "inctran": inctran(g(rq, "inctran"))})
            elif n == "CCSTMTENDTRNRQ":
                rq = g(w, "ccstmtendrq")
                reqs["ccstmtend"].append({"acctid": g(g(rq, "ccacctfrom"), "acctid"), "dtstart": _inst(g(rq, "dtstart")), "dtend": _inst(g(rq, "dtend"))})
            elif n == "INVSTMTTRNRQ":
                rq = g(w, "invstmtrq"); a = g(rq, "invacctfrom"); ip = g(rq, "incpos")
                reqs["invstmt"].append({"brokerid": g(a, "brokerid"), "acctid": g(a, "acctid"), "inctran": inctran(g(rq, "inctran")), "incoo": g(rq, "incoo"), "incbal": g(rq, "incbal"),
                                        "incpos": {"dtasof": _inst(g(ip, "dtasof")), "include": g(ip, "include")} if ip is not None else None})
            elif n == "ACCTINFOTRNRQ":
                reqs["acctinfo"].append({"dtacctup": _inst(g(g(w, "acctinforq"), "dtacctup"))})
            elif n == "PROFTRNRQ":
                rq = g(w, "profrq")
                reqs["prof"].append({"clientrouting": g(rq, "clientrouting"), "dtprofup": _inst(g(rq, "dtprofup"))})
            elif n == "TAX1099TRNRQ":
                rq = g(w, "tax1099rq")
                reqs["tax1099"].append({"acctnum": g(rq, "acctnum"), "recid": g(rq, "recid"), "years": [str(y) for y in list.__iter__(rq)]})
    st["requests"] = reqs
    st["trnuids"] = trnuids
    return st
