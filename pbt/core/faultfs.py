"""
Interception of Python-level file I/O under a root directory: every write-path operation
(open for writing incl. its truncation, each write, close, os.replace / os.rename, os.unlink,
os.fsync, low-level os.open / os.write) calls hook(op, path, phase) with phase 'pre' and 'post'.
The hook may raise (crash injection), os._exit (hard crash in a forked child) or block
(harness-owned schedules).  Reads of files under the root are reported as op 'open-r'.
Intercepting at this generic layer keeps checks valid if the code under test changes how it
writes (in place, temp file + rename, pathlib helpers...).
"""
from __future__ import annotations

import builtins
import io
import os


class _FileProxy:
    def __init__(self, f, path, hook, writable):
        self._f, self._path, self._hook, self._w = f, path, hook, writable
        self._closed = False

    def write(self, data):
        if self._w:
            self._hook("write", self._path, "pre", self._f, data)
        n = self._f.write(data)
        if self._w:
            self._hook("write", self._path, "post", self._f, data)
        return n

    def close(self):
        if self._closed:
            return
        self._closed = True
        if self._w:
            self._hook("close", self._path, "pre", self._f, None)
        self._f.close()
        if self._w:
            self._hook("close", self._path, "post", self._f, None)

    def __enter__(self):
        return self

    def __exit__(self, *exc):
        self.close()
        return False

    def __iter__(self):
        return iter(self._f)

    def __getattr__(self, name):
        return getattr(self._f, name)


class Intercept:
    def __init__(self, root, hook):
        self.root = os.path.realpath(str(root))
        self.hook = hook
        self._saved = None
        self._fds = {}

    def _under(self, path):
        try:
            p = os.path.realpath(os.fspath(path))
        except TypeError:
            return None
        return p if (p == self.root or p.startswith(self.root + os.sep)) else None

    def __enter__(self):
        real_open = io.open
        real_replace, real_rename, real_unlink, real_fsync = os.replace, os.rename, os.unlink, os.fsync
        real_os_open, real_os_write, real_os_close = os.open, os.write, os.close
        me = self

        def _open(file, mode="r", *a, **k):
            p = me._under(file) if not isinstance(file, int) else me._fds.get(file)
            if p is None:
                return real_open(file, mode, *a, **k)
            writable = any(c in mode for c in "wax+")
            op = "open-w" if writable else "open-r"
            me.hook(op, p, "pre", None, None)
            f = real_open(file, mode, *a, **k)
            me.hook(op, p, "post", f, None)
            return _FileProxy(f, p, me.hook, writable)

        def _two(name, real):
            def fn(src, dst, *a, **k):
                p = me._under(dst) or me._under(src)
                if p is None:
                    return real(src, dst, *a, **k)
                me.hook(name, p, "pre", None, None)
                r = real(src, dst, *a, **k)
                me.hook(name, p, "post", None, None)
                return r

            return fn

        def _unlink(path, *a, **k):
            p = me._under(path)
            if p is None:
                return real_unlink(path, *a, **k)
            me.hook("unlink", p, "pre", None, None)
            r = real_unlink(path, *a, **k)
            me.hook("unlink", p, "post", None, None)
            return r

        def _fsync(fd):
            p = me._fds.get(fd) if isinstance(fd, int) else None
            if p:
                me.hook("fsync", p, "pre", None, None)
            r = real_fsync(fd)
            if p:
                me.hook("fsync", p, "post", None, None)
            return r

        def _os_open(path, flags, *a, **k):
            p = me._under(path)
            if p is None or not (flags & (os.O_WRONLY | os.O_RDWR)):
                return real_os_open(path, flags, *a, **k)
            me.hook("os-open", p, "pre", None, None)
            fd = real_os_open(path, flags, *a, **k)
            me._fds[fd] = p
            me.hook("os-open", p, "post", None, None)
            return fd

        def _os_write(fd, data):
            p = me._fds.get(fd)
            if p is None:
                return real_os_write(fd, data)
            me.hook("os-write", p, "pre", None, data)
            r = real_os_write(fd, data)
            me.hook("os-write", p, "post", None, data)
            return r

        def _os_close(fd):
            me._fds.pop(fd, None)
            return real_os_close(fd)

        self._saved = (builtins.open, io.open, os.replace, os.rename, os.unlink, os.remove, os.fsync, os.open, os.write, os.close)
        builtins.open = _open
        io.open = _open
        os.replace = _two("replace", real_replace)
        os.rename = _two("rename", real_rename)
        os.unlink = _unlink
        os.remove = _unlink
        os.fsync = _fsync
        os.open = _os_open
        os.write = _os_write
        os.close = _os_close
        return self

    def __exit__(self, *exc):
        (builtins.open, io.open, os.replace, os.rename, os.unlink, os.remove, os.fsync, os.open, os.write, os.close) = self._saved
        return False
