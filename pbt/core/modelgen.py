"""
Declaration introspection, valid-instance generation for every model class,
builders (description -> library instance / expected values), structural
comparator and walker.

Instance description (JSON-able):
    {"cls": "STMTRS", "kw": {attr: <scalar tag> | <instance description>}, "list": [<instance description> | <scalar tag>]}
Scalar tags:  ["str", s] ["bool", b] ["int", n] ["dec", "12.50"] ["tok", "CHECKING"]
              ["dt", y, mo, d, h, mi, s, us, offset_minutes, zone_name|None]  ["time", h, mi, s, us, offset_minutes]
"""
from __future__ import annotations

import copy
import datetime as dt
import decimal
import functools
import importlib
import pkgutil
import sys

from hypothesis import strategies as st

from pbt.core import harness as H
from pbt.core import reftypes as R


# ---------------------------------------------------------------------------
# class universe and declarations (read independently of Aggregate.spec)
# ---------------------------------------------------------------------------
@functools.lru_cache(maxsize=None)
def universe():
    """name -> class for every concrete (ALL-CAPS) Aggregate subclass defined in any module of ofxtools.models."""
    H.setup_path()
    import ofxtools.models as pkg
    from ofxtools.models.base import Aggregate

    found = {}
    for m in pkgutil.walk_packages(pkg.__path__, pkg.__name__ + "."):
        mod = importlib.import_module(m.name)
        for k, v in list(vars(mod).items()):
            # classes are taken where they are bound under their own name (however they were created: class statement or factory)
            if isinstance(v, type) and issubclass(v, Aggregate) and k == v.__name__ and (v.__module__ == mod.__name__ or not v.__module__.startswith(pkg.__name__ + ".") or getattr(sys.modules.get(v.__module__), v.__name__, None) is not v):
                found[(mod.__name__, v.__name__)] = v
    # the same class re-exported by several modules counts once
    uniq = {}
    for (modname, name), v in sorted(found.items()):
        uniq.setdefault(id(v), ((modname, name), v))
    found = dict(uniq.values())
    out = {}
    for (modname, name), v in sorted(found.items()):
        if name.isupper():
            if name in out and out[name] is not v:
                raise H.HarnessError(f"two classes named {name}")
            out[name] = v
    return out


def all_classes_including_bases():
    H.setup_path()
    from ofxtools.models.base import Aggregate

    seen, todo = [], [Aggregate]
    while todo:
        c = todo.pop()
        for s in c.__subclasses__():
            if s not in seen:
                seen.append(s)
                todo.append(s)
    return seen


KINDS = ("elem", "sub", "listagg", "listelem", "unsupported")


@functools.lru_cache(maxsize=None)
def decl(cls):
    """Ordered [(attr, kind, typeobj)] read from vars(base) over the reversed MRO (later definitions override, first position kept)."""
    from ofxtools import Types

    out = {}
    for base in reversed(cls.__mro__):
        for k, v in list(vars(base).items()):
            if isinstance(v, Types.Unsupported):
                out[k] = ("unsupported", v)
            elif isinstance(v, Types.ListAggregate):
                out[k] = ("listagg", v)
            elif isinstance(v, Types.ListElement):
                out[k] = ("listelem", v)
            elif isinstance(v, Types.SubAggregate):
                out[k] = ("sub", v)
            elif isinstance(v, Types.Element):
                out[k] = ("elem", v)
            elif k in out:
                del out[k]  # shadowed by a non-declaration
    # ChainMap(*mro dicts) ordering: keys ordered by *last* mapping first ... emulate spec order:
    # spec iterates ChainMap.items(): order of dict(ChainMap) = insertion over reversed maps, i.e. base-most first.
    return tuple((k, kind, t) for k, (kind, t) in out.items())


@functools.lru_cache(maxsize=None)
def mutex_groups(cls):
    """(optional_groups, required_groups): union over every base in the MRO (so shadowed mixin groups are seen)."""
    opt, req = [], []
    for base in cls.__mro__:
        d = vars(base)
        for g in d.get("optionalMutexes", []) or []:
            if tuple(g) not in opt:
                opt.append(tuple(g))
        for g in d.get("requiredMutexes", []) or []:
            if tuple(g) not in req:
                req.append(tuple(g))
    return tuple(opt), tuple(req)


def effective_mutex_groups(cls):
    """What normal attribute lookup gives the library (may miss shadowed groups)."""
    return tuple(tuple(g) for g in cls.optionalMutexes), tuple(tuple(g) for g in cls.requiredMutexes)


def tag_of(cls, attr):
    """OFX tag under which `attr` of `cls` is written (renames FROM / YIELD honoured)."""
    if cls.__name__ == "MAIL" and attr == "frm":
        return "FROM"
    if cls.__name__ == "MFINFO" and attr == "yld":
        return "YIELD"
    if cls.__name__ == "STOCKINFO" and attr == "yld":
        return "YIELD"
    return attr.upper()


@functools.lru_cache(maxsize=None)
def list_group_index(cls):
    """member class name -> index of the run of adjacent list attributes it belongs to (the OFX sequence
    allows members of one run in any order, but runs are ordered)."""
    out, g, prev = {}, -1, False
    for k, kind, t in decl(cls):
        if kind in ("listagg", "listelem"):
            if not prev:
                g += 1
            if kind == "listagg":
                out[t.__type__.__name__] = g
            prev = True
        else:
            prev = False
    return out


def order_members(desc):
    """Valid sequence order: members of an earlier run of list attributes come first (stable)."""
    gi = list_group_index(universe()[desc["cls"]])
    if len(set(gi.values())) > 1:
        desc["list"].sort(key=lambda m: gi.get(m["cls"], 0) if isinstance(m, dict) else 0)


def member_types(cls):
    """name(lower) -> class for permitted list-member aggregate types."""
    return {k: t.__type__ for k, kind, t in decl(cls) if kind == "listagg"}


def list_elem(cls):
    for k, kind, t in decl(cls):
        if kind == "listelem":
            return k, t
    return None


def has_list(cls):
    return any(kind in ("listagg", "listelem") for _, kind, _ in decl(cls))


# classes whose declarations cannot be satisfied through the public API on the pinned tree (reported under C13)
UNBUILDABLE_MEMBERS = {}


# ---------------------------------------------------------------------------
# scalar strategies
# ---------------------------------------------------------------------------
TEXT_CH = st.characters(categories=("L", "M", "N", "P", "S", "Zs"))
ZONE = st.one_of(st.none(), st.sampled_from(["GMT", "EST", "UTC", "CET", "A/B", "x-1", "Z_9", "a b", "+1:x"]), st.text("ABCDEFGHIJKLMNOPQRSTUVWXYZabcdefghijklmnopqrstuvwxyz0123456789+-:/_ ", min_size=1, max_size=6))


def _trimmed(s):
    """Non-empty, no leading/trailing whitespace - judged on the value the model will *hold*: the
    descriptor applies the wire entity decoder to Python values too, so '&nbsp;x' is stored as ' x'."""
    if not (bool(s) and not s[0].isspace() and not s[-1].isspace()):
        return False
    d = R.decode_entities(s)
    return bool(d) and not d[0].isspace() and not d[-1].isspace()


def string_st(limit, markup=True):
    cap = limit if limit is not None else 64
    short = min(cap, 10)
    pool = ["x", "A b", "é漢", "a,b", "1.5", "Tom's", 'say "hi"', "a b", "a  b", "ACME   HARDWARE  CO",
            # not NFC-stable (decomposed accent, Angstrom / Ohm signs, CJK compatibility ideograph): strings are code-point sequences
            "Ame\u0301lie", "\u212b\u2126", "\uf900x", "\u0958\ufb2a", "Caf\ufeffe", "\ufeffx",
            # values that look like another type's text or like a placeholder
            "0", "000000", "N", "Y", "NONE", "null", "-1", "1e5", "20200101",
            # URL-shaped text is text too (upper case in scheme and host, empty query / fragment marks)
            "HTTPS://OFX.Example.COM/Path?", "https://User@Host.example/x#", "http://EXAMPLE.org"]
    if markup:
        pool += ["AT&T", "a<b", "a>b", "<&>", "a & b < c", "R&amp;D", "&lt;", "a&nbsp;b", "&quot;x&quot;", "it&apos;s", "&amp;nbsp;x", "&#38;", "a&b;c", "AT&amp;amp;T", "x&amp;nbsp;y", "&amp;lt;b&amp;gt;", "&amp;quot;q&amp;quot;", "&amp;amp;amp;"]
    base = st.one_of(
        st.sampled_from(pool).map(lambda s: s[:cap]).filter(_trimmed),
        st.text(TEXT_CH, min_size=1, max_size=short).filter(_trimmed),
    )
    if cap <= 300:
        at_limit = st.text(st.sampled_from("abcXYZ019 &<é"), min_size=cap, max_size=cap).filter(_trimmed)
        return st.one_of(base, base, base, at_limit)
    return base


def int_st(length):
    hi = 10**length - 1 if length is not None else 10**9
    # besides the range and its ends: the numbers that mean something to someone (OFX status codes, years) and the most
    # negative number of n digits
    notable = [v for v in (0, 1, hi, -hi, 2000, 2020, 15000, 15500, 15501, 15510, 13504, 1999, 2024) if abs(v) <= hi]
    return st.one_of(st.integers(0, hi), st.sampled_from(notable), st.integers(-min(hi, 999), -1))


def dec_text_st(scale):
    def mk(neg, ip, fp):
        t = ("-" if neg else "") + str(ip)
        if fp:
            t += "." + fp
        return t

    if scale is None:
        frac = st.text("0123456789", min_size=0, max_size=6)
    else:
        k = -scale.as_tuple().exponent if isinstance(scale, decimal.Decimal) else int(scale)
        frac = st.text("0123456789", min_size=k, max_size=k)
    ints = st.one_of(st.integers(0, 10**12), st.sampled_from([0, 1, 100]))
    if scale is None:
        # now and then more significant digits than any fixed working precision: amounts are exact
        ints = st.integers(0, 15).flatmap(lambda i: st.integers(10**29, 10**36) if i == 0 else st.one_of(st.integers(0, 10**12), st.sampled_from([0, 1, 100])))
    return st.builds(mk, st.booleans(), ints, frac)


DT = st.builds(
    lambda y, mo, d, h, mi, s, ms, off, name: ["dt", y, mo, min(d, R.days_in_month(y, mo)), h, mi, s, ms * 1000, off, name],
    st.integers(1900, 2200), st.integers(1, 12), st.integers(1, 31), st.integers(0, 23), st.integers(0, 59), st.integers(0, 59),
    st.one_of(st.just(0), st.integers(0, 999)),
    st.one_of(st.just(0), st.integers(-720, 840), st.sampled_from([-30, -300, 330, 345, 840, -720])),
    ZONE,
)
TIME = st.builds(lambda h, mi, s, ms, off: ["time", h, mi, s, ms * 1000, off], st.integers(0, 23), st.integers(0, 59), st.integers(0, 59), st.integers(0, 999), st.one_of(st.just(0), st.integers(-720, 840)))


def scalar_st(t, markup=True):
    if LEX_MODE[0]:
        return lex_scalar_st(t)
    if WIDE_MODE[0]:
        return wide_scalar_st(t)
    return _scalar_st(t, markup)


# Wide mode (C11): values from the whole space the Python types offer, valid for OFX or not.
WIDE_MODE = [False]
WIDE_CH = st.one_of(st.characters(categories=("L", "M", "N", "P", "S", "Zs")), st.sampled_from(list("&<>&<>\"' \t\n]")))


def _rarely(main, rare, k=12):
    """`rare` once in k draws: values that will be refused must not starve the accepted instances."""
    return st.integers(0, k - 1).flatmap(lambda i: rare if i == 0 else main)


def wide_scalar_st(t):
    from ofxtools import Types

    if isinstance(t, Types.ListElement):
        return wide_scalar_st(t.converter)
    if isinstance(t, Types.Bool):
        return _rarely(st.booleans().map(lambda b: ["bool", b]), st.sampled_from([["int", 0], ["int", 1], ["str", "y"], ["str", "Y"], ["str", "TRUE"], ["str", "true"], ["str", "Yes"], ["str", "FALSE"], ["str", "NO"], ["str", " Y "]]))
    if isinstance(t, Types.String):
        cap = t.length if t.length is not None else 40
        main = st.one_of(
            st.sampled_from(["AT&T", "a<b", "<![CDATA[x]]>", "&amp;", "&#60;", "&bogus;", "a&b;c", "</OFX>", "&", "<", " x ", "]]>"]).map(lambda x: x[:cap] or "&"),
            st.text(WIDE_CH, min_size=1, max_size=min(cap, 12)),
            st.text(st.sampled_from("&<a"), min_size=cap, max_size=cap) if cap <= 300 else st.just("&<"),
            # exactly at the limit, made of characters whose normalised (NFC) form is longer than the character
            st.text(st.sampled_from("\u0958\ufb2a\u0344\u0f43a"), min_size=cap, max_size=cap) if cap <= 300 else st.just("\u0958"),
        )
        # at the limit, then over it by blanks / no-break spaces / a combining mark only (must be refused, not written)
        over = st.sampled_from([" ", "  ", "\u00a0", "\u0301", "\t"]).map(lambda pad: "x" * cap + pad) if cap <= 300 else st.just("x ")
        if isinstance(t, Types.NagString) and cap <= 300:
            # warn-only strings are accepted beyond their nominal length: common enough to be generated often
            main = st.one_of(main, main, st.integers(1, 40).map(lambda k: "n" * (cap + k)))
        return _rarely(main, over).map(lambda x: ["str", x])
    if isinstance(t, Types.OneOf):
        # mostly declared tokens; sometimes a spelling that differs only in case, or a foreign token (must be refused, or
        # whatever is written must be a declared token)
        tok = st.sampled_from(list(t.valid))
        return _rarely(tok, st.one_of(tok.map(lambda x: str(x).lower()), tok.map(lambda x: str(x).capitalize()), st.just("ZZ_FOREIGN"))).map(lambda x: ["tok", x])
    if isinstance(t, Types.Integer):
        # bool is an int subclass; values beyond the digit limit must be refused
        over = 10 ** (t.length or 12)
        ok = st.one_of(int_st(t.length).map(lambda n: ["int", n]), int_st(t.length).map(lambda n: ["int", n]), int_st(t.length).map(lambda n: ["int", n]), st.booleans().map(lambda b: ["bool", b]))
        return _rarely(ok, st.sampled_from([over, -over, over * 10 + 3]).map(lambda n: ["int", n]))
    if isinstance(t, Types.Decimal):
        special = st.sampled_from(["NaN", "sNaN", "Infinity", "-Infinity", "-0", "0E-10", "0E+5", "1E+2", "1E-30", "-1.50E+3", "1E+30", "123456789012345678901234567890", "0.000000000000000000001"])
        general = st.builds(
            lambda sign, digits, exp, norm: _wide_dec(sign, digits, exp, norm),
            st.booleans(), st.integers(0, 10**15), st.integers(-30, 30), st.booleans(),
        )
        if t.scale is not None:
            k = -t.scale.as_tuple().exponent
            exact = dec_text_st(t.scale)
            return st.one_of(special, general, exact, exact).map(lambda x: ["dec", x])
        return st.one_of(special, general, general).map(lambda x: ["dec", x])
    if isinstance(t, Types.Time):
        return st.builds(lambda h, mi, s_, us, off: ["timew", h, mi, s_, us, off], st.integers(0, 23), st.integers(0, 59), st.integers(0, 59), st.integers(0, 999999), st.integers(-86399, 86399))
    if isinstance(t, Types.DateTime):
        zone = st.one_of(st.none(), st.sampled_from(["EST", "a<b", "x&y", "]", "[", ":", "A:B]C", "&amp;", "</DTSERVER>"]), st.text(WIDE_CH, min_size=1, max_size=5))
        return st.builds(
            lambda y, mo, d, h, mi, s_, us, off, name: ["dtw", y, mo, min(d, R.days_in_month(y, mo)), h, mi, s_, us, off, name],
            st.integers(1, 9998), st.integers(1, 12), st.integers(1, 31), st.integers(0, 23), st.integers(0, 59), st.integers(0, 59), st.integers(0, 999999),
            st.one_of(st.integers(-86399, 86399), st.integers(-14, 14).map(lambda x: x * 3600), st.sampled_from([0, -1800, 1800, -60, 59])),
            zone,
        )
    raise H.HarnessError(f"no wide strategy for {t!r}")


def _wide_dec(sign, digits, exp, norm):
    d = decimal.Decimal((1 if sign else 0, tuple(int(c) for c in str(digits)), exp))
    if norm:
        d = d.normalize()
    return str(d)


# Document mode (C03): scalars are *lexical descriptions* - the text that goes into the document is
# rendered from them by docgen, the expected typed value is computed from them by reftypes.
LEX_MODE = [False]


def lex_scalar_st(t):
    from ofxtools import Types
    from pbt.checks.c09 import read_case

    if isinstance(t, Types.ListElement):
        return lex_scalar_st(t.converter)
    if isinstance(t, Types.Bool):
        return st.booleans().map(lambda b: ["bool", b])
    if isinstance(t, Types.String):
        # in a document, character data may run over several lines (a message body, a wrapped memo): the line breaks are data
        multi = st.sampled_from(["line one\nline two", "a\n  b", "x\n\ny", "1\n2\n3"]).filter(lambda s: t.length is None or len(s) <= t.length)
        return st.builds(lambda s, style: ["str", s, style], st.integers(0, 11).flatmap(lambda i: multi if i == 0 and (t.length is None or t.length >= 6) else string_st(t.length, True)), st.integers(0, 3))
    if isinstance(t, Types.OneOf):
        return st.sampled_from(list(t.valid)).map(lambda s: ["tok", s])
    if isinstance(t, Types.Integer):
        return int_st(t.length).map(lambda n: ["int", n])
    if isinstance(t, Types.Decimal):
        k = None if t.scale is None else -t.scale.as_tuple().exponent
        # with a fixed scale the document may carry more or fewer places than the scale
        return st.builds(lambda s, sep, plus: ["dec", s, sep, plus and not s.startswith("-"), k], dec_text_st(None), st.sampled_from([".", ","]), st.booleans())
    if isinstance(t, Types.Time):
        return read_case(timekind=True).map(_no_tzonly).map(lambda f: ["timex", f])
    if isinstance(t, Types.DateTime):
        return read_case(timekind=False).map(_no_tzonly).map(lambda f: ["dtx", f])
    raise H.HarnessError(f"no lexical strategy for {t!r}")


def _no_tzonly(f):
    f = dict(f)
    f.pop("kind", None)
    if f.pop("tzonly", None):
        f.update(sign="signed", mins="auto", name="EST")
    return f


def _scalar_st(t, markup=True):
    from ofxtools import Types

    if isinstance(t, Types.ListElement):
        return _scalar_st(t.converter, markup)
    if isinstance(t, Types.Bool):
        return st.booleans().map(lambda b: ["bool", b])
    if isinstance(t, Types.String):  # incl. NagString
        return string_st(t.length, markup).map(lambda s: ["str", s])
    if isinstance(t, Types.OneOf):
        return st.sampled_from(list(t.valid)).map(lambda s: ["tok", s])
    if isinstance(t, Types.Integer):
        return int_st(t.length).map(lambda n: ["int", n])
    if isinstance(t, Types.Decimal):
        return dec_text_st(t.scale).map(lambda s: ["dec", s])
    if isinstance(t, Types.Time):
        return TIME
    if isinstance(t, Types.DateTime):
        return DT
    raise H.HarnessError(f"no strategy for {t!r}")


def minimal_scalar(t):
    """A fixed valid value for the type (used by enumerating checks)."""
    from ofxtools import Types

    if isinstance(t, Types.ListElement):
        return minimal_scalar(t.converter)
    if isinstance(t, Types.Bool):
        return ["bool", True]
    if isinstance(t, Types.String):
        return ["str", "x"]
    if isinstance(t, Types.OneOf):
        return ["tok", t.valid[0]]
    if isinstance(t, Types.Integer):
        return ["int", 1]
    if isinstance(t, Types.Decimal):
        if t.scale is None:
            return ["dec", "1.5"]
        k = -t.scale.as_tuple().exponent
        return ["dec", "1" + ("." + "0" * k if k else "")]
    if isinstance(t, Types.Time):
        return ["time", 12, 0, 0, 0, 0]
    if isinstance(t, Types.DateTime):
        return ["dt", 2020, 1, 2, 3, 4, 5, 0, 0, None]
    raise H.HarnessError(f"no minimal value for {t!r}")


def untag(v):
    k = v[0]
    if k in ("str", "bool", "int", "tok"):
        return v[1]
    if k == "dec":
        return decimal.Decimal(v[1])
    if k == "dt":
        y, mo, d, h, mi, s, us, off, name = v[1:]
        tz = dt.timezone(dt.timedelta(minutes=off)) if name is None else dt.timezone(dt.timedelta(minutes=off), name)
        return dt.datetime(y, mo, d, h, mi, s, us, tzinfo=tz)
    if k == "time":
        h, mi, s, us, off = v[1:]
        return dt.time(h, mi, s, us, tzinfo=dt.timezone(dt.timedelta(minutes=off)))
    if k == "dtw":
        y, mo, d, h, mi, s, us, off, name = v[1:]
        tz = dt.timezone(dt.timedelta(seconds=off)) if name is None else dt.timezone(dt.timedelta(seconds=off), name)
        return dt.datetime(y, mo, d, h, mi, s, us, tzinfo=tz)
    if k == "timew":
        h, mi, s, us, off = v[1:]
        return dt.time(h, mi, s, us, tzinfo=dt.timezone(dt.timedelta(seconds=off)))
    raise H.HarnessError(v)


def is_scalar(v):
    return isinstance(v, list)


# ---------------------------------------------------------------------------
# custom (validate_args) constraints: description fixers
# ---------------------------------------------------------------------------
def _need_member(desc, draw, depth, markup):
    cls = universe()[desc["cls"]]
    if desc["list"]:
        return
    le = list_elem(cls)
    if le:
        desc["list"].append(draw(scalar_st(le[1], markup)))
    else:
        mt = sorted(member_types(cls).items())
        name, mcls = mt[draw(st.integers(0, len(mt) - 1))]
        desc["list"].append(draw(instance_st(mcls, depth + 1, markup)))


def _fix_acctinfo(desc, draw, depth, markup):
    _need_member(desc, draw, depth, markup)
    seen, keep = set(), []
    for m in desc["list"]:
        if m["cls"] not in seen:
            seen.add(m["cls"])
            keep.append(m)
    desc["list"] = keep


def _fix_contribsecurity(desc, draw, depth, markup):
    kw = desc["kw"]
    cls = universe()["CONTRIBSECURITY"]
    names = [k for k, kind, t in decl(cls) if kind == "elem"]
    suffix = draw(st.sampled_from(["pct", "amt"]))
    pool = [n for n in names if n.endswith(suffix)]
    for n in names:
        if n in kw and not n.endswith(suffix):
            del kw[n]
    if not any(n in kw for n in pool):
        n = pool[draw(st.integers(0, len(pool) - 1))]
        kw[n] = draw(scalar_st(dict((k, t) for k, _, t in decl(cls))[n], markup))


def _fix_extdpayee(desc, draw, depth, markup):
    kw = desc["kw"]
    cls = universe()["EXTDPAYEE"]
    types = dict((k, t) for k, _, t in decl(cls))
    if "payeeid" in kw:
        for n in ("idscope", "name"):
            if n not in kw:
                kw[n] = draw(scalar_st(types[n], markup))


def _fix_extdpmt(desc, draw, depth, markup):
    kw = desc["kw"]
    cls = universe()["EXTDPMT"]
    if "extdpmtdsc" not in kw and not any(m["cls"] == "EXTDPMTINV" for m in desc["list"]):
        types = dict((k, t) for k, _, t in decl(cls))
        kw["extdpmtdsc"] = draw(scalar_st(types["extdpmtdsc"], markup))


def _fix_ofx(desc, draw, depth, markup):
    kw = desc["kw"]
    side = "rq" if "signonmsgsrqv1" in kw else "rs"
    for k in list(kw):
        if not k.endswith(side + "v1"):
            del kw[k]


def _fix_sonrq(desc, draw, depth, markup):
    kw = desc["kw"]
    cls = universe()["SONRQ"]
    types = dict((k, t) for k, _, t in decl(cls))
    if draw(st.integers(0, 4)) == 0:
        kw.pop("userid", None)
        kw.pop("userpass", None)
        if "userkey" not in kw:
            kw["userkey"] = draw(scalar_st(types["userkey"], markup))
    else:
        kw.pop("userkey", None)
        for n in ("userid", "userpass"):
            if n not in kw:
                kw[n] = draw(scalar_st(types[n], markup))


def _fix_tax1099misc(desc, draw, depth, markup):
    kw = desc["kw"]
    cls = universe()["TAX1099MISC_V100"]
    types = dict((k, t) for k, _, t in decl(cls))
    if "sttaxwh" in kw and "payerstate" not in kw:
        kw["payerstate"] = draw(scalar_st(types["payerstate"], markup))
    # the declared group (sttaxwh | addlsttaxwhagg) names a repeated child: honour its intention
    if "sttaxwh" in kw:
        desc["list"] = [m for m in desc["list"] if m["cls"] != "ADDLSTTAXWHAGG"]


def _fix_tax1099intdiv(desc, draw, depth, markup):
    # FORCNT and FORINCOME (a repeated child) exclude each other
    if "forcnt" in desc["kw"]:
        desc["list"] = [m for m in desc["list"] if m["cls"] != "FORINCOME"]


def _fix_tax1099r(desc, draw, depth, markup):
    kw = desc["kw"]
    cls = universe()["TAX1099R_V100"]
    types = dict((k, t) for k, _, t in decl(cls))
    if any(n in kw for n in ("grossdist", "taxamt", "fedtaxwh", "sttaxwh", "lcltaxwh")) and "irasepsimp" not in kw:
        kw["irasepsimp"] = draw(scalar_st(types["irasepsimp"], markup))


def _fix_tax1099rs(desc, draw, depth, markup):
    if not any(m["cls"].startswith("TAX1099") for m in desc["list"]):
        cls = universe()["TAX1099RS"]
        mt = sorted((k, c) for k, c in member_types(cls).items() if c.__name__.startswith("TAX1099"))
        name, mcls = mt[draw(st.integers(0, len(mt) - 1))]
        desc["list"].append(draw(instance_st(mcls, depth + 1, markup)))


def _fix_list_groups(desc, draw, depth, markup):
    """Declared exclusivity groups that name a repeated child (TAX1099INT/DIV forincome...): honour the intention."""
    cls = universe()[desc["cls"]]
    opt, _ = mutex_groups(cls)
    mt = member_types(cls)
    for g in opt:
        listed = [a for a in g if a in mt]
        if not listed:
            continue
        present_kw = [a for a in g if a in desc["kw"]]
        if present_kw:
            names = {mt[a].__name__ for a in listed}
            desc["list"] = [m for m in desc["list"] if not (isinstance(m, dict) and m["cls"] in names)]


FIXERS = {
    "ACCTINFO": _fix_acctinfo,
    "CONTRIBINFO": _need_member,
    "CONTRIBSECURITY": _fix_contribsecurity,
    "EXTDPAYEE": _fix_extdpayee,
    "EXTDPMT": _fix_extdpmt,
    "MFACHALLENGERS": _need_member,
    "MSGSETCORE": _need_member,
    "MSGSETLIST": _need_member,
    "OFX": _fix_ofx,
    "SONRQ": _fix_sonrq,
    "TAX1099MISC_V100": _fix_tax1099misc,
    "TAX1099R_V100": _fix_tax1099r,
    "TAX1099INT_V100": _fix_tax1099intdiv,
    "TAX1099DIV_V100": _fix_tax1099intdiv,
    "TAX1099RS": _fix_tax1099rs,
    "TAX1099MSGSRQV1": _need_member,
    "TAX1099MSGSRSV1": _need_member,
    "TAX1099MSGSETV1": _need_member,
}

# classes (found by the harness self-test / C13) whose list members cannot be generated soundly on the pinned tree
SKIP_MEMBERS = {}


def custom_constrained_classes():
    """Classes overriding validate_args (must all have a fixer: harness self-test)."""
    from ofxtools.models.base import Aggregate

    return sorted(n for n, c in universe().items() if "validate_args" in vars(c) or any("validate_args" in vars(b) for b in c.__mro__[1:] if b is not Aggregate and issubclass(b, Aggregate)))


# ---------------------------------------------------------------------------
# instance strategy
# ---------------------------------------------------------------------------
MAX_DEPTH = 5


def instance_st(cls, depth=0, markup=True, max_members=3, p0=0.5):
    @st.composite
    def _inst(draw):
        return draw_instance(draw, cls, depth, markup, max_members, p0)

    return _inst()


def draw_instance(draw, cls, depth, markup, max_members=3, p0=0.5):
    d = decl(cls)
    opt, req = mutex_groups(cls)
    kw = {}
    lst = []
    # which optional children are present: one integer per child keeps the number of draws low
    thresh = int(1000 * p0 * (0.55**depth)) if depth < MAX_DEPTH else 0
    chosen = {}
    for attr, kind, t in d:
        if kind in ("unsupported", "listagg", "listelem"):
            continue
        if t.required:
            chosen[attr] = True
        else:
            chosen[attr] = thresh > 0 and draw(st.integers(0, 999)) < thresh
    # exclusivity groups
    for g in opt:
        present = [a for a in g if chosen.get(a)]
        if len(present) > 1:
            keep = present[draw(st.integers(0, len(present) - 1))]
            for a in present:
                if a != keep:
                    chosen[a] = False
    for g in req:
        present = [a for a in g if chosen.get(a)]
        cand = [a for a in g if a in chosen]
        if len(present) != 1 and cand:
            keep = (present or cand)[draw(st.integers(0, len(present or cand) - 1))]
            for a in cand:
                chosen[a] = a == keep
    for attr, kind, t in d:
        if not chosen.get(attr):
            continue
        if kind == "elem":
            kw[attr] = draw(scalar_st(t, markup))
        elif kind == "sub":
            kw[attr] = draw_instance(draw, t.__type__, depth + 1, markup, max_members, p0)
    # list members
    mt = sorted(member_types(cls).items())
    le = list_elem(cls)
    if (mt or le) and depth < MAX_DEPTH:
        n = draw(st.integers(0, max_members)) if depth < 3 else draw(st.integers(0, 1))
        for _ in range(n):
            if le:
                lst.append(draw(scalar_st(le[1], markup)))
            else:
                name, mcls = mt[draw(st.integers(0, len(mt) - 1))]
                if (cls.__name__, mcls.__name__) in SKIP_MEMBERS:
                    continue
                lst.append(draw_instance(draw, mcls, depth + 1, markup, max_members, p0))
        if lst and draw(st.integers(0, 5)) == 0:
            # a list is a sequence, not a set: the same member may occur twice (exact copy, anywhere)
            src = lst[draw(st.integers(0, len(lst) - 1))]
            lst.insert(draw(st.integers(0, len(lst))), copy.deepcopy(src))
    desc = {"cls": cls.__name__, "kw": kw, "list": lst}
    _fix_list_groups(desc, draw, depth, markup)
    fx = FIXERS.get(cls.__name__)
    if fx:
        fx(desc, draw, depth, markup)
    order_members(desc)
    return desc


def minimal(cls, with_attr=None, with_member=None, _depth=0):
    """Deterministic smallest valid description; optionally containing a given child / member type."""
    if _depth > 12:
        raise H.HarnessError(f"minimal({cls.__name__}) recursion")
    d = decl(cls)
    opt, req = mutex_groups(cls)
    kw = {}
    want = set()
    for attr, kind, t in d:
        if kind in ("elem", "sub") and (t.required or attr == with_attr):
            want.add(attr)
    for g in req:
        if not any(a in want for a in g):
            pick = with_attr if with_attr in g else g[0]
            if cls.__name__ == "OFX" and with_attr and with_attr.endswith("rsv1") and "signonmsgsrsv1" in g:
                pick = "signonmsgsrsv1"  # request and response message sets are never mixed
            want.add(pick)
    if with_attr:
        for g in list(opt) + list(req):
            if with_attr in g:
                want -= {a for a in g if a != with_attr}
    for attr, kind, t in d:
        if attr not in want:
            continue
        kw[attr] = minimal_scalar(t) if kind == "elem" else minimal(t.__type__, _depth=_depth + 1)
    lst = []
    if with_member is not None:
        if isinstance(with_member, str):
            lst.append(minimal(universe()[with_member], _depth=_depth + 1))
        else:
            lst.append(with_member)
    desc = {"cls": cls.__name__, "kw": kw, "list": lst}
    _apply_fixers_deterministic(desc)
    return desc


class _FirstDraw:
    """Deterministic stand-in for Hypothesis' draw: always the simplest choice."""

    def __call__(self, strategy):
        from hypothesis import find, settings, Phase, HealthCheck

        return find(strategy, lambda x: True, settings=settings(max_examples=50, database=None, deadline=None, phases=[Phase.generate, Phase.shrink], suppress_health_check=list(HealthCheck)))


def _apply_fixers_deterministic(desc):
    fx = FIXERS.get(desc["cls"])
    if fx is None:
        return
    cls = universe()[desc["cls"]]
    kw = desc["kw"]
    name = desc["cls"]
    types = dict((k, t) for k, _, t in decl(cls))
    if fx is _need_member or name in ("ACCTINFO",):
        if not desc["list"]:
            le = list_elem(cls)
            if le:
                desc["list"].append(minimal_scalar(le[1]))
            else:
                mt = sorted(member_types(cls).items())
                desc["list"].append(minimal(mt[0][1]))
    elif name == "CONTRIBSECURITY":
        if not any(k.endswith("pct") or k.endswith("amt") for k in kw):
            kw["pretaxcontribpct"] = minimal_scalar(types["pretaxcontribpct"])
    elif name == "EXTDPAYEE":
        if "payeeid" in kw:
            for n in ("idscope", "name"):
                kw.setdefault(n, minimal_scalar(types[n]))
    elif name == "EXTDPMT":
        if "extdpmtdsc" not in kw and not desc["list"]:
            kw["extdpmtdsc"] = minimal_scalar(types["extdpmtdsc"])
    elif name == "OFX":
        side = "rq" if "signonmsgsrqv1" in kw else "rs"
        for k in list(kw):
            if not k.endswith(side + "v1"):
                del kw[k]
    elif name == "SONRQ":
        if "userkey" in kw and ("userid" in kw or "userpass" in kw):
            kw.pop("userid", None)
            kw.pop("userpass", None)
        elif "userkey" not in kw:
            for n in ("userid", "userpass"):
                kw.setdefault(n, minimal_scalar(types[n]))
    elif name == "TAX1099MISC_V100":
        if "sttaxwh" in kw:
            kw.setdefault("payerstate", minimal_scalar(types["payerstate"]))
    elif name == "TAX1099R_V100":
        if any(n in kw for n in ("grossdist", "taxamt", "fedtaxwh", "sttaxwh", "lcltaxwh")):
            kw.setdefault("irasepsimp", minimal_scalar(types["irasepsimp"]))
    elif name == "TAX1099RS":
        if not any(isinstance(m, dict) and m["cls"].startswith("TAX1099") for m in desc["list"]):
            mt = sorted((k, c) for k, c in member_types(cls).items() if c.__name__.startswith("TAX1099"))
            desc["list"].append(minimal(mt[0][1]))


# ---------------------------------------------------------------------------
# builders
# ---------------------------------------------------------------------------
def build(desc):
    """description -> library instance (through the public constructor)."""
    cls = universe()[desc["cls"]]
    kw = {}
    for k, v in desc["kw"].items():
        kw[k] = untag(v) if is_scalar(v) else build(v)
    members = [untag(m) if is_scalar(m) else build(m) for m in desc["list"]]
    le = list_elem(cls)
    if le:
        members = [_member_arg(le[1], m) for m in members]
    return cls(*members, **kw)


def _member_arg(t, value):
    return value


def desc_stats(desc, acc=None, depth=1):
    acc = acc if acc is not None else {"optional": 0, "members": 0, "member_types": set(), "depth": 0, "empty_sub": 0, "markup": 0, "nonascii": 0, "neg_frac_off": 0, "classes": set(), "nodes": 0, "scalars": 0}
    cls = universe()[desc["cls"]]
    acc["classes"].add(desc["cls"])
    acc["nodes"] += 1
    acc["depth"] = max(acc["depth"], depth)
    types = {k: (kind, t) for k, kind, t in decl(cls)}
    for k, v in desc["kw"].items():
        kind, t = types[k]
        if not t.required:
            acc["optional"] += 1
        if is_scalar(v):
            _scalar_stats(v, acc)
        else:
            if not v["kw"] and not v["list"]:
                acc["empty_sub"] += 1
            desc_stats(v, acc, depth + 1)
    for m in desc["list"]:
        acc["members"] += 1
        if is_scalar(m):
            _scalar_stats(m, acc)
        else:
            acc["member_types"].add(m["cls"])
            if not m["kw"] and not m["list"]:
                acc["empty_sub"] += 1
            desc_stats(m, acc, depth + 1)
    return acc


def _scalar_stats(v, acc):
    acc["scalars"] += 1
    if v[0] == "str":
        if any(c in v[1] for c in "&<>"):
            acc["markup"] += 1
        if any(ord(c) > 127 for c in v[1]):
            acc["nonascii"] += 1
    elif v[0] == "dt" and -60 < v[8] < 0:
        acc["neg_frac_off"] += 1


def nontrivial_instance(desc):
    s = desc_stats(desc)
    return s["optional"] >= 1 and (s["members"] >= 1 or s["depth"] >= 3)


# ---------------------------------------------------------------------------
# comparator and walker (never uses list.__eq__ of Aggregate)
# ---------------------------------------------------------------------------
def scalar_equal(a, b, ms=True):
    if a is None or b is None:
        return a is b
    if isinstance(a, bool) or isinstance(b, bool):
        return type(a) is type(b) and a == b
    if isinstance(a, decimal.Decimal) or isinstance(b, decimal.Decimal):
        return type(a) is type(b) and a == b and a.as_tuple().exponent == b.as_tuple().exponent
    if isinstance(a, dt.datetime) or isinstance(b, dt.datetime):
        if not (isinstance(a, dt.datetime) and isinstance(b, dt.datetime)):
            return False
        if a.utcoffset() is None or b.utcoffset() is None:
            return False
        return R.py_instant_us(a) // 1000 == R.py_instant_us(b) // 1000
    if isinstance(a, dt.time) or isinstance(b, dt.time):
        if not (isinstance(a, dt.time) and isinstance(b, dt.time)):
            return False
        return R.py_time_us(a) // 1000 == R.py_time_us(b) // 1000
    return type(a) is type(b) and a == b


def stored(inst, attr):
    """Value stored for a declared non-list child (instance __dict__, as the descriptor puts it)."""
    return inst.__dict__.get(attr)


def model_diff(a, b, path=""):
    """[] if structurally equal, else list of 'path: reason' strings."""
    from ofxtools.models.base import Aggregate

    out = []
    if type(a) is not type(b):
        return [f"{path}: class {type(a).__name__} != {type(b).__name__}"]
    cls = type(a)
    p = path + "/" + cls.__name__
    for attr, kind, t in decl(cls):
        if kind in ("listagg", "listelem", "unsupported"):
            continue
        va, vb = stored(a, attr), stored(b, attr)
        if isinstance(va, Aggregate) or isinstance(vb, Aggregate):
            if va is None or vb is None:
                out.append(f"{p}.{attr}: {va!r} != {vb!r}")
            else:
                out += model_diff(va, vb, p + "." + attr)
        elif not scalar_equal(va, vb):
            out.append(f"{p}.{attr}: {va!r} != {vb!r}")
        if len(out) > 5:
            return out
    la, lb = list.__iter__(a), list.__iter__(b)
    la, lb = list(la), list(lb)
    if len(la) != len(lb):
        out.append(f"{p}: {len(la)} list members != {len(lb)}")
        return out
    for i, (ma, mb) in enumerate(zip(la, lb)):
        if isinstance(ma, Aggregate) or isinstance(mb, Aggregate):
            if not (isinstance(ma, Aggregate) and isinstance(mb, Aggregate)):
                out.append(f"{p}[{i}]: {ma!r} != {mb!r}")
            else:
                out += model_diff(ma, mb, f"{p}[{i}]")
        elif not scalar_equal(ma, mb):
            out.append(f"{p}[{i}]: {ma!r} != {mb!r}")
        if len(out) > 5:
            break
    return out


def walk(inst, path=""):
    """Yield (path, attr_or_index, value) for every stored scalar, depth first in declaration order."""
    from ofxtools.models.base import Aggregate

    cls = type(inst)
    p = path + "/" + cls.__name__
    for attr, kind, t in decl(cls):
        if kind in ("listagg", "listelem", "unsupported"):
            continue
        v = stored(inst, attr)
        if v is None:
            continue
        if isinstance(v, Aggregate):
            yield from walk(v, p + "." + attr)
        else:
            yield (p, attr, v)
    for i, m in enumerate(list(list.__iter__(inst))):
        if isinstance(m, Aggregate):
            yield from walk(m, f"{p}[{i}]")
        else:
            yield (p, i, m)


def dump(inst):
    """Canonical nested dump of a model (for purity / repeatability comparisons)."""
    from ofxtools.models.base import Aggregate

    cls = type(inst)
    kw = {}
    for attr, kind, t in decl(cls):
        if kind in ("listagg", "listelem", "unsupported"):
            continue
        v = stored(inst, attr)
        if v is None:
            continue
        kw[attr] = dump(v) if isinstance(v, Aggregate) else _dump_scalar(v)
    members = [dump(m) if isinstance(m, Aggregate) else _dump_scalar(m) for m in list.__iter__(inst)]
    return [cls.__name__, kw, members]


def _dump_scalar(v):
    if isinstance(v, dt.datetime):
        return ["dt", R.py_instant_us(v) if v.utcoffset() is not None else repr(v)]
    if isinstance(v, dt.time):
        return ["time", R.py_time_us(v) if v.utcoffset() is not None else repr(v)]
    if isinstance(v, decimal.Decimal):
        return ["dec", str(v)]
    return [type(v).__name__, v]


def etree_dump(elem):
    return [elem.tag, elem.text, elem.tail, sorted(elem.attrib.items()), [etree_dump(c) for c in elem]]


# ---------------------------------------------------------------------------
# equal-but-distinguishable twins (guards against caches keyed by value equality)
# ---------------------------------------------------------------------------
def twin_desc(desc, k=1):
    """Same description with every unscaled decimal given k more trailing zeros and every date-time moved to
    another zone at the same instant: all values compare equal to the original's, all are written differently."""
    from ofxtools import Types

    cls = universe()[desc["cls"]]
    types = {a: (kind, t) for a, kind, t in decl(cls)}
    changed = [0]

    def tw(v, t):
        if isinstance(t, Types.ListElement):
            t = t.converter
        if v[0] == "dec" and isinstance(t, Types.Decimal) and t.scale is None:
            txt = v[1]
            changed[0] += 1
            return ["dec", txt + ("0" * k if "." in txt else "." + "0" * k)]
        if v[0] == "dt":
            a = untag(v)
            off2 = 330 if v[8] != 330 else -300
            b = a.astimezone(dt.timezone(dt.timedelta(minutes=off2)))
            if 1900 <= b.year <= 2200:
                changed[0] += 1
                return ["dt", b.year, b.month, b.day, b.hour, b.minute, b.second, b.microsecond, off2, v[9]]
        return v

    kw = {}
    for a, v in desc["kw"].items():
        kind, t = types[a]
        if is_scalar(v):
            kw[a] = tw(v, t)
        else:
            sub, n = twin_desc(v, k)
            changed[0] += n
            kw[a] = sub
    lst = []
    le = list_elem(cls)
    for m in desc["list"]:
        if is_scalar(m):
            lst.append(tw(m, le[1]) if le else m)
        else:
            sub, n = twin_desc(m, k)
            changed[0] += n
            lst.append(sub)
    return {"cls": desc["cls"], "kw": kw, "list": lst}, changed[0]
