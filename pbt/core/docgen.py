"""
Document mode: an instance description whose scalars are lexical descriptions
-> (a) an abstract refofx tree with generator-chosen lexical forms and rendering
choices, (b) the expected list of (path, attr|index, typed value) computed by
the independent type rules in reftypes.
"""
from __future__ import annotations

import datetime as dt
import decimal

from pbt.core import harness as H
from pbt.core import modelgen as M
from pbt.core import reftypes as R

GAPS = ["", "\n", "\r\n", " ", "\n  ", "\t"]


def lex_text(v):
    k = v[0]
    if k == "bool":
        return "Y" if v[1] else "N"
    if k == "int":
        return str(v[1])
    if k == "tok":
        return v[1]
    if k == "dec":
        _, text, sep, plus, _k = v
        t = text.replace(".", sep)
        return ("+" + t) if plus else t
    if k == "str":
        _, s, style = v
        t = R.escape_min(s)
        if style == 1:
            t = t.replace('"', "&quot;").replace("'", "&apos;")
        elif style == 2:
            t = t.replace(" ", "&nbsp;")
        elif style == 3:
            t = t.replace('"', "&quot;").replace(" ", "&nbsp;")
        return t
    if k in ("dtx", "timex"):
        return R.escape_min(R.render_dt(v[1]))  # zone names may contain markup characters
    raise H.HarnessError(v)


def lex_expected(v):
    """-> (python type, comparable value) by the independent rules."""
    k = v[0]
    if k == "bool":
        return ("bool", v[1])
    if k == "int":
        return ("int", v[1])
    if k == "tok":
        return ("str", v[1])
    if k == "str":
        return ("str", v[1])
    if k == "dec":
        _, text, sep, plus, scale = v
        d = R.decimal_from_text(text)
        return ("Decimal", (str(d), scale))
    if k == "dtx":
        return ("datetime", R.expected_instant_us(v[1]))
    if k == "timex":
        return ("time", R.expected_instant_us(v[1]))
    raise H.HarnessError(v)


def actual_value(x):
    if isinstance(x, bool):
        return ("bool", x)
    if isinstance(x, int):
        return ("int", x)
    if isinstance(x, str):
        return ("str", x)
    if isinstance(x, decimal.Decimal):
        return ("Decimal", x)
    if isinstance(x, dt.datetime):
        if x.utcoffset() != dt.timedelta(0):
            return ("datetime-not-utc", repr(x))
        return ("datetime", R.py_instant_us(x))
    if isinstance(x, dt.time):
        if x.utcoffset() != dt.timedelta(0):
            return ("time-not-utc", repr(x))
        return ("time", R.py_time_us(x))
    return (type(x).__name__, repr(x))


def values_match(exp, act):
    if exp[0] != act[0]:
        return False
    if exp[0] == "Decimal":
        text, scale = exp[1]
        ref = decimal.Decimal(text)
        got = act[1]
        if scale is None:
            return got == ref and got.as_tuple().exponent == ref.as_tuple().exponent
        q = decimal.Decimal(1).scaleb(-scale)
        return got.as_tuple().exponent == -scale and abs(got - ref) * 2 <= q
    return exp[1] == act[1]


def child_order(cls, desc):
    """Children of the document node in valid OFX sequence order:
    [("kw", attr) | ("member", index)]"""
    gi = M.list_group_index(cls)
    out = []
    emitted_groups = set()
    g = -1
    prev_list = False
    for attr, kind, t in M.decl(cls):
        if kind in ("listagg", "listelem"):
            if not prev_list:
                g += 1
                for i, m in enumerate(desc["list"]):
                    mg = gi.get(m["cls"], 0) if isinstance(m, dict) else 0
                    if mg == g or kind == "listelem":
                        out.append(("member", i))
            prev_list = True
            continue
        prev_list = False
        if attr in desc["kw"]:
            out.append(("kw", attr))
    return out


def to_tree(desc, style_seed, sgml):
    """desc -> refofx abstract node; rendering choices derived deterministically from style_seed."""
    counter = [0]

    def choice(n):
        counter[0] += 1
        return (style_seed * 2654435761 + counter[0] * 40503) % 1000003 % n

    def leaf(tag, v):
        node = {"t": tag, "d": lex_text(v), "end": True, "ga": GAPS[choice(len(GAPS))]}
        if sgml and choice(2) == 0:
            node["end"] = False
            if node["ga"] in ("", " ", "\t"):
                node["ga"] = "\n"
        return node

    def agg(d):
        cls = M.universe()[d["cls"]]
        kids = []
        le = M.list_elem(cls)
        for what, key in child_order(cls, d):
            if what == "kw":
                v = d["kw"][key]
                tag = M.tag_of(cls, key)
                kids.append(leaf(tag, v) if M.is_scalar(v) else agg(v))
            else:
                m = d["list"][key]
                kids.append(leaf(le[0].upper(), m) if M.is_scalar(m) else agg(m))
        return {"t": d["cls"], "c": kids, "g": GAPS[choice(len(GAPS))], "ga": GAPS[choice(len(GAPS))]}

    return agg(desc)


def expected(desc, path=""):
    """[(path, attr|index, (type, value))] in the same scheme as modelgen.walk."""
    cls = M.universe()[desc["cls"]]
    p = path + "/" + desc["cls"]
    out = []
    for attr, kind, t in M.decl(cls):
        if kind in ("listagg", "listelem", "unsupported") or attr not in desc["kw"]:
            continue
        v = desc["kw"][attr]
        if M.is_scalar(v):
            out.append((p, attr, lex_expected(v)))
        else:
            out += expected(v, p + "." + attr)
    for i, m in enumerate(desc["list"]):
        if M.is_scalar(m):
            out.append((p, i, lex_expected(m)))
        else:
            out += expected(m, f"{p}[{i}]")
    return out


HDR_V1 = "OFXHEADER:100\r\nDATA:OFXSGML\r\nVERSION:{v}\r\nSECURITY:NONE\r\nENCODING:UTF-8\r\nCHARSET:NONE\r\nCOMPRESSION:NONE\r\nOLDFILEUID:NONE\r\nNEWFILEUID:NONE\r\n\r\n"
HDR_V2 = '<?xml version="1.0" encoding="UTF-8" standalone="no"?>\r\n<?OFX OFXHEADER="200" VERSION="{v}" SECURITY="NONE" OLDFILEUID="NONE" NEWFILEUID="NONE"?>\r\n'


def file_bytes(body, sgml, version=None):
    if sgml:
        return (HDR_V1.format(v=version or 102) + body).encode("utf_8")
    return (HDR_V2.format(v=version or 203) + body).encode("utf_8")


# ---------------------------------------------------------------------------
# plain-mode helpers: description with typed scalars -> element tree built by the harness (not the library)
# ---------------------------------------------------------------------------
def plain_text(v):
    """Canonical wire text of a plain-mode scalar tag (own rendering; ET escapes on serialisation)."""
    k = v[0]
    if k == "bool":
        return "Y" if v[1] else "N"
    if k in ("int",):
        return str(v[1])
    if k in ("tok", "str", "dec", "raw"):
        return str(v[1])
    if k == "dt":
        y, mo, d, h, mi, s, us, off, name = v[1:]
        f = {"y": y, "mo": mo, "d": d, "h": h, "mi": mi, "s": s, "ms": us // 1000, "notation": "full", "off": off, "sign": "signed", "mins": "auto", "name": name}
        return R.render_dt(f)
    if k == "time":
        h, mi, s, us, off = v[1:]
        f = {"y": 0, "mo": 0, "d": 0, "h": h, "mi": mi, "s": s, "ms": us // 1000, "notation": "tfull", "off": off, "sign": "signed", "mins": "auto", "name": None}
        return R.render_dt(f)
    if k in ("dtx", "timex", "bool", "dec") or len(v) > 2:
        return lex_text(v)
    raise H.HarnessError(v)


def to_etree(desc, parser_like=True):
    """description -> xml.etree Element in valid OFX order (built by the harness).

    parser_like=True gives element text the way the library's parser delivers it: whitespace-trimmed and *still
    entity-escaped* (the type converters do the decoding).  parser_like=False gives the decoded text, for trees that
    are serialised with ElementTree (which escapes)."""
    import xml.etree.ElementTree as ET

    def text_of(v):
        t = plain_text(v)
        return R.escape_min(t) if parser_like else t

    cls = M.universe()[desc["cls"]]
    root = ET.Element(desc["cls"])
    le = M.list_elem(cls)
    for what, key in child_order(cls, desc):
        if what == "kw":
            v = desc["kw"][key]
            if M.is_scalar(v):
                ET.SubElement(root, M.tag_of(cls, key)).text = text_of(v)
            else:
                root.append(to_etree(v, parser_like))
        else:
            m = desc["list"][key]
            if M.is_scalar(m):
                ET.SubElement(root, le[0].upper()).text = text_of(m)
            else:
                root.append(to_etree(m, parser_like))
    return root
