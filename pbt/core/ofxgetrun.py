"""
"One run of ofxget": fresh module state against a given configuration directory, exactly as a new
process would see it (fi.cfg + user file re-read), without spawning an interpreter:
XDG_* set -> importlib.reload(ofxtools.config) -> importlib.reload(ofxtools.scripts.ofxget) ->
real argparser -> merge_config -> request handler with stdout captured.
"""
from __future__ import annotations

import configparser
import contextlib
import importlib
import io
import os
import sys
import warnings
from pathlib import Path

from pbt.core import harness as H


class Run:
    def __init__(self):
        self.merged = None
        self.stdout = ""
        self.raised = None
        self.exited = False


def load(root: Path):
    """(re)load ofxtools.config and ofxget against the directory tree under root; -> ofxget module"""
    H.setup_path()
    os.environ["XDG_CONFIG_HOME"] = str(root / "config")
    os.environ["XDG_DATA_HOME"] = str(root / "data")
    os.environ["XDG_CACHE_HOME"] = str(root / "cache")
    import ofxtools.config as cfg

    importlib.reload(cfg)
    import ofxtools.Client as client

    client.config = cfg  # Client looks up config.DATADIR at call time through its own module global
    import ofxtools.scripts.ofxget as ofxget

    importlib.reload(ofxget)
    return ofxget


def user_cfg_path(root: Path) -> Path:
    return root / "config" / "ofxtools" / "ofxget.cfg"


def run(root: Path, argv, handler=True) -> Run:
    r = Run()
    ofxget = load(root)
    r.module = ofxget
    out = io.StringIO()
    warnings.simplefilter("ignore")
    try:
        with contextlib.redirect_stdout(out), contextlib.redirect_stderr(io.StringIO()):
            ns = ofxget.make_argparser().parse_args(argv)
            merged = ofxget.merge_config(ns, ofxget.USERCFG)
            r.merged = merged
            r.effective = {k: merged[k] for k in ofxget.DEFAULTS}
            if handler:
                ofxget.REQUEST_HANDLERS[merged["request"]](merged)
    except SystemExit:
        r.exited = True
    except Exception as e:
        r.raised = e
    r.stdout = out.getvalue()
    return r


# ---- independent readers of the configuration sources -----------------------------
_FIDB = None


def fidb():
    """The bundled FI database read with a plain ConfigParser (no interpolation, no converters)."""
    global _FIDB
    if _FIDB is None:
        H.setup_path()
        import ofxtools

        p = Path(ofxtools.__file__).parent / "config" / "fi.cfg"
        cp = configparser.RawConfigParser()
        cp.read(p)
        _FIDB = {s: dict(cp.items(s)) for s in cp.sections() if s != "NAMES"}
    return _FIDB


def read_user_file(root: Path):
    """-> (defaults dict, {section: dict}) raw strings, read independently."""
    p = user_cfg_path(root)
    cp = configparser.RawConfigParser()
    if p.exists():
        cp.read(p)
    secs = {}
    for s in cp.sections():
        own = dict(cp._sections[s])  # the section's own options only (no DEFAULT inheritance)
        secs[s] = own
    return dict(cp.defaults()), secs


BOOL_WORDS = {"1": True, "yes": True, "true": True, "on": True, "0": False, "no": False, "false": False, "off": False}


def typed(opt_type, text):
    """Type rules of the configuration file, implemented independently."""
    if opt_type is bool:
        return BOOL_WORDS[text.strip().lower()]
    if opt_type is int:
        return int(text)
    if opt_type is list:
        return [x.strip() for x in text.split(",")]
    return text
