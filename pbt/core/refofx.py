"""
Independent OFX wire layer: renderer for abstract trees with explicit rendering
choices, and a strict hand-written scanner classifying any body text as
WELL_FORMED(tree) / MUST_REJECT(reason) / UNSPECIFIED(reason).

Abstract node (JSON-able dict):
  aggregate: {"t": TAG, "c": [nodes], "g": gap-after-start-tag, "ga": gap-after-end-tag}
  leaf     : {"t": TAG, "d": data, "end": bool, "cdata": bool, "w0": ws-before-data,
              "w1": ws-after-data, "ga": gap-after-node}
Plain tree (what parsers are compared with):  [TAG, data-or-None, [children]]
"""
from __future__ import annotations

import xml.etree.ElementTree as ET

TAGCHARS = set("ABCDEFGHIJKLMNOPQRSTUVWXYZ0123456789._")
WS = " \t\r\n"


# ---- rendering ------------------------------------------------------------------
def render(node) -> str:
    t = node["t"]
    if "c" in node:
        return "<%s>%s%s</%s>%s" % (t, node.get("g", ""), "".join(render(c) for c in node["c"]), t, node.get("ga", ""))
    data = node["d"]
    if node.get("cdata"):
        data = "<![CDATA[" + data + "]]>"
    return "<%s>%s%s%s%s%s" % (t, node.get("w0", ""), data, node.get("w1", ""), ("</%s>" % t) if node.get("end", True) else "", node.get("ga", ""))


def plain(node):
    if "c" in node:
        return [node["t"], None, [plain(c) for c in node["c"]]]
    return [node["t"], node["d"], []]


def tokens_of(node, out=None):
    """Token-kind sequence of a rendering (for adjacent-pair coverage)."""
    out = [] if out is None else out
    if "c" in node:
        if not node["c"]:
            out.append("empty-agg")
        else:
            out.append("agg-open")
            for c in node["c"]:
                tokens_of(c, out)
            out.append("agg-close")
    else:
        out.append("leaf-cdata" if node.get("cdata") else "leaf-data")
        out.append("leaf-close" if node.get("end", True) else "leaf-unclosed")
    return out


def from_etree(elem: ET.Element):
    """Plain tree of an ElementTree element (text trimmed; '' -> None)."""
    text = elem.text
    if text is not None:
        text = text.strip() or None
    return [elem.tag, text, [from_etree(c) for c in elem]]


def etree_anomalies(elem: ET.Element, path=""):
    """Attributes or non-blank tails: things a faithful tree must not have."""
    out = []
    if elem.attrib:
        out.append(f"{path}/{elem.tag}: attributes {elem.attrib}")
    if elem.tail and elem.tail.strip():
        out.append(f"{path}/{elem.tag}: tail {elem.tail!r}")
    if len(elem) and elem.text and elem.text.strip():
        out.append(f"{path}/{elem.tag}: aggregate with text {elem.text!r}")
    for c in elem:
        out += etree_anomalies(c, path + "/" + elem.tag)
    return out


# ---- strict scanner ----------------------------------------------------------------
class _Tok:
    __slots__ = ("kind", "val", "pos")

    def __init__(self, kind, val, pos):
        self.kind, self.val, self.pos = kind, val, pos


def lex(text: str):
    """-> list of tokens or raises ValueError(reason) for lexically unspecified input."""
    toks = []
    i, n = 0, len(text)
    while i < n:
        if text[i] == "<":
            if text.startswith("<![CDATA[", i):
                j = text.find("]]>", i + 9)
                if j < 0:
                    raise ValueError("unterminated CDATA")
                toks.append(_Tok("cdata", text[i + 9 : j], i))
                i = j + 3
                continue
            j = text.find(">", i)
            if j < 0:
                raise ValueError("unterminated tag")
            name = text[i + 1 : j]
            kind = "start"
            if name.startswith("/"):
                kind, name = "end", name[1:]
            if not name or any(c not in TAGCHARS for c in name):
                raise ValueError(f"tag {name!r} outside the OFX tag alphabet")
            toks.append(_Tok(kind, name, i))
            i = j + 1
        else:
            j = text.find("<", i)
            if j < 0:
                j = n
            toks.append(_Tok("text", text[i:j], i))
            i = j
    return toks


WELL_FORMED, MUST_REJECT, UNSPECIFIED = "WELL_FORMED", "MUST_REJECT", "UNSPECIFIED"


class _El:
    __slots__ = ("tag", "data", "children", "dataless_open")

    def __init__(self, tag):
        self.tag = tag
        self.data = None
        self.children = []
        self.dataless_open = True  # no data, no children, not closed: leaf-or-aggregate ambiguity

    def plain(self):
        return [self.tag, self.data, [c.plain() for c in self.children]]


def classify(text: str):
    """
    -> (WELL_FORMED, plain_tree) | (MUST_REJECT, reason) | (UNSPECIFIED, reason)

    Strict reading: a start tag followed by non-blank text / CDATA is a data element whose end
    tag may be omitted; every other start tag opens an aggregate that must be closed by its own
    end tag, in order.  A start tag with neither data nor children that is not closed by its own
    end tag is ambiguous (empty data element without end tag vs. unclosed aggregate): if reading
    it as an empty data element makes the document well-formed the verdict is UNSPECIFIED.
    """
    try:
        toks = lex(text)
    except ValueError as e:
        return (UNSPECIFIED, str(e))
    # constructs the statement does not cover make the whole text UNSPECIFIED, wherever they occur and whatever
    # else is wrong with the nesting (a later oddity must not be judged through an earlier error or vice versa)
    for i, tk in enumerate(toks):
        if tk.kind == "cdata":
            if tk.val == "" or tk.val != tk.val.strip():
                return (UNSPECIFIED, "empty or untrimmed CDATA data")
            prev = toks[i - 1] if i else None
            prev2 = toks[i - 2] if i > 1 else None
            directly = prev is not None and (prev.kind == "start" or (prev.kind == "text" and not prev.val.strip() and prev2 is not None and prev2.kind == "start"))
            if not directly:
                return (UNSPECIFIED, "CDATA section not directly inside a data element")
            nxt = toks[i + 1] if i + 1 < len(toks) else None
            if nxt is not None and nxt.kind == "text" and nxt.val.strip():
                return (UNSPECIFIED, "text after CDATA section")
            if nxt is not None and nxt.kind == "cdata":
                return (UNSPECIFIED, "two CDATA sections in one element")
        elif tk.kind == "text" and any(ord(c) < 32 and c not in "\t\n\r" for c in tk.val):
            return (UNSPECIFIED, "control characters in text")

    verdicts = set()
    reasons = []
    result = {}

    def run(lenient: bool):
        stack = []
        roots = []
        i = 0
        n = len(toks)

        def attach(el):
            if stack:
                stack[-1].children.append(el)
                stack[-1].dataless_open = False
            else:
                roots.append(el)

        while i < n:
            tk = toks[i]
            if tk.kind == "start":
                if len(roots) >= 1 and not stack:
                    return (MUST_REJECT, "second top-level element")
                el = _El(tk.val)
                # data?
                j = i + 1
                data = None
                if j < n and toks[j].kind == "text":
                    if toks[j].val.strip():
                        data = toks[j].val.strip()
                        j += 1
                    elif j + 1 < n and toks[j + 1].kind == "cdata":
                        data = toks[j + 1].val
                        j += 2
                        if j < n and toks[j].kind == "text":
                            if toks[j].val.strip():
                                return (UNSPECIFIED, "text after CDATA section")
                            j += 1
                    else:
                        j += 1  # blank gap
                elif j < n and toks[j].kind == "cdata":
                    data = toks[j].val
                    j += 1
                    if j < n and toks[j].kind == "text":
                        if toks[j].val.strip():
                            return (UNSPECIFIED, "text after CDATA section")
                        j += 1
                if data is not None:
                    if data != data.strip():
                        # only CDATA can carry untrimmed data: outside the quantifier (trimmed, non-empty data)
                        return (UNSPECIFIED, "CDATA data with leading or trailing whitespace")
                    el.data = data
                    el.dataless_open = False
                    attach(el)
                    # optional own end tag
                    if j < n and toks[j].kind == "end" and toks[j].val == el.tag:
                        j += 1
                    i = j
                    continue
                attach(el)
                stack.append(el)
                i = j
                continue
            if tk.kind == "end":
                while lenient and stack and stack[-1].dataless_open and stack[-1].tag != tk.val:
                    stack.pop()  # read as empty data element with omitted end tag
                if not stack:
                    return (MUST_REJECT, f"stray end tag </{tk.val}>")
                if stack[-1].tag != tk.val:
                    return (MUST_REJECT, f"end tag </{tk.val}> does not close <{stack[-1].tag}>")
                el = stack.pop()
                el.dataless_open = False
                i += 1
                continue
            if tk.kind == "text":
                if tk.val.strip():
                    return (MUST_REJECT, "text outside a data element") if (roots or stack) else (UNSPECIFIED, "text before the first tag")
                i += 1
                continue
            if tk.kind == "cdata":
                return (UNSPECIFIED, "CDATA section not directly inside a data element")
        while lenient and stack and stack[-1].dataless_open:
            stack.pop()
        if stack:
            return (MUST_REJECT, f"<{stack[-1].tag}> never closed (truncated or end tag missing)")
        if not roots:
            return (MUST_REJECT, "no element at all")
        return (WELL_FORMED, roots[0].plain())

    strict = run(False)
    if strict[0] != MUST_REJECT:
        return strict
    lenient = run(True)
    if lenient[0] == WELL_FORMED:
        return (UNSPECIFIED, "well-formed only if a dataless start tag is read as an empty data element: " + strict[1], lenient[1])
    return strict


def read_lenient(text: str):
    """Plain tree under the strict reading, or - if only that makes it well-formed - under the reading where a
    dataless, childless start tag is an empty element without end tag (what the library's unclosed writer emits for
    an empty aggregate).  None if neither reading is well-formed."""
    v = classify(text)
    if v[0] == WELL_FORMED:
        return v[1]
    if v[0] == UNSPECIFIED and len(v) == 3:
        return v[2]
    return None


def leaves(tree, path=""):
    """Flatten a plain tree into [(path, data)] for leaves."""
    tag, data, children = tree
    p = path + "/" + tag
    out = []
    if data is not None:
        out.append((p, data))
    seen = {}
    for c in children:
        k = seen.get(c[0], 0)
        seen[c[0]] = k + 1
        out += leaves(c, f"{p}[{k}]" if False else p)
    return out
