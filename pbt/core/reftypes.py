"""
Independent implementation of the OFX data-type rules used as oracle
(OFX 3.2.8): integer civil-date arithmetic, date-time / time notations,
decimal / integer / boolean lexical rules.  Nothing from ofxtools is used here.
"""
from __future__ import annotations

import datetime as _dt
import decimal as _dec
import re

US_DAY = 86400 * 10**6


# ---- civil date arithmetic (H. Hinnant's algorithms, integers only) ---------
def days_from_civil(y: int, m: int, d: int) -> int:
    y -= m <= 2
    era = (y if y >= 0 else y - 399) // 400
    yoe = y - era * 400
    doy = (153 * (m + (-3 if m > 2 else 9)) + 2) // 5 + d - 1
    doe = yoe * 365 + yoe // 4 - yoe // 100 + doy
    return era * 146097 + doe - 719468


def civil_from_days(z: int):
    z += 719468
    era = (z if z >= 0 else z - 146096) // 146097
    doe = z - era * 146097
    yoe = (doe - doe // 1460 + doe // 36524 - doe // 146096) // 365
    y = yoe + era * 400
    doy = doe - (365 * yoe + yoe // 4 - yoe // 100)
    mp = (5 * doy + 2) // 153
    d = doy - (153 * mp + 2) // 5 + 1
    m = mp + (3 if mp < 10 else -9)
    return (y + (m <= 2), m, d)


def is_leap(y):
    return y % 4 == 0 and (y % 100 != 0 or y % 400 == 0)


def days_in_month(y, m):
    if m == 2:
        return 29 if is_leap(y) else 28
    return 30 if m in (4, 6, 9, 11) else 31


def local_us(y, mo, d, h=0, mi=0, s=0, ms=0, us=0) -> int:
    """Microseconds since 1970-01-01T00:00 of the *local* wall-clock fields."""
    return ((days_from_civil(y, mo, d) * 86400 + h * 3600 + mi * 60 + s) * 1000 + ms) * 1000 + us


def fields_from_us(t: int):
    days, rem = divmod(t, US_DAY)
    y, mo, d = civil_from_days(days)
    secs, us = divmod(rem, 10**6)
    h, r = divmod(secs, 3600)
    mi, s = divmod(r, 60)
    return y, mo, d, h, mi, s, us


EPOCH = _dt.datetime(1970, 1, 1, tzinfo=_dt.timezone.utc)


def py_instant_us(value: _dt.datetime) -> int:
    """Instant of an aware datetime in integer microseconds (stdlib arithmetic)."""
    return (value - EPOCH) // _dt.timedelta(microseconds=1)


def py_time_us(value: _dt.time) -> int:
    """UTC time-of-day in microseconds of an aware datetime.time."""
    off = value.utcoffset()
    loc = ((value.hour * 60 + value.minute) * 60 + value.second) * 10**6 + value.microsecond
    return (loc - off // _dt.timedelta(microseconds=1)) % US_DAY


# ---- offsets ------------------------------------------------------------------
def render_offset(off_min: int, sign_style: str, min_style: str) -> str:
    """
    off_min: offset in minutes east of GMT.
    sign_style: 'signed' -> '+5' / '-5';  'unsigned' -> '5' (only for off_min >= 0)
    min_style: 'auto' -> '.MM' only if minutes != 0;  'always' -> always '.MM'
    """
    neg = off_min < 0
    h, m = divmod(abs(off_min), 60)
    if neg:
        s = "-"
    else:
        s = "+" if sign_style == "signed" else ""
    out = f"{s}{h}"
    if m or min_style == "always":
        out += ".%02d" % m
    return out


TZ_TABLE = {"EST": -5, "EDT": -4, "CST": -6, "CDT": -5, "MST": -7, "MDT": -6, "PST": -8, "PDT": -7}


def render_dt(f: dict) -> str:
    """
    f: {y,mo,d,h,mi,s,ms, notation, off, sign, mins, name}
    notation: 'date' | 'dt' | 'dtms' | 'full' | 'nomsoff'   (nomsoff = YYYYMMDDHHMMSS[off:name])
              for times: 't' | 'tms' | 'tfull' | 'tnomsoff'
    """
    n = f["notation"]
    date = "%04d%02d%02d" % (f["y"], f["mo"], f["d"]) if not n.startswith("t") else ""
    hms = "%02d%02d%02d" % (f["h"], f["mi"], f["s"])
    ms = ".%03d" % f["ms"]
    if n == "date":
        return date
    if n in ("dt", "t"):
        return date + hms
    if n in ("dtms", "tms"):
        return date + hms + ms
    if f.get("tzonly"):
        off = "-:" + f["tzonly"]
    else:
        off = render_offset(f["off"], f.get("sign", "signed"), f.get("mins", "auto"))
        if f.get("name") is not None:
            off += ":" + f["name"]
    if n in ("full", "tfull"):
        return date + hms + ms + "[" + off + "]"
    if n in ("nomsoff", "tnomsoff"):
        return date + hms + "[" + off + "]"
    raise ValueError(n)


def expected_instant_us(f: dict) -> int:
    """The instant (or UTC time-of-day for time notations) the notation denotes."""
    n = f["notation"]
    has_time = n != "date"
    has_ms = n in ("dtms", "full", "tms", "tfull")
    has_off = n in ("full", "nomsoff", "tfull", "tnomsoff")
    h, mi, s = (f["h"], f["mi"], f["s"]) if has_time else (0, 0, 0)
    ms = f["ms"] if has_ms else 0
    if has_off:
        off = TZ_TABLE[f["tzonly"]] * 60 if f.get("tzonly") else f["off"]
    else:
        off = 0
    if n.startswith("t"):
        loc = ((h * 60 + mi) * 60 + s) * 10**6 + ms * 1000
        return (loc - off * 60 * 10**6) % US_DAY
    return local_us(f["y"], f["mo"], f["d"], h, mi, s, ms) - off * 60 * 10**6


# ---- reading the library's *written* form ---------------------------------------
_W_DT = re.compile(r"^(\d{4})(\d{2})(\d{2})(\d{2})(\d{2})(\d{2})\.(\d{3})\[([+-])(\d{1,2})(?:\.(\d{2}))?(?::(.*))?\]$", re.S)
_W_T = re.compile(r"^(\d{2})(\d{2})(\d{2})\.(\d{3})\[([+-])(\d{1,2})(?:\.(\d{2}))?(?::(.*))?\]$", re.S)


def parse_written_dt(text: str):
    """-> (instant_us, offset_min, name) or None if not the canonical written form."""
    m = _W_DT.match(text)
    if not m:
        return None
    y, mo, d, h, mi, s, ms = (int(x) for x in m.group(1, 2, 3, 4, 5, 6, 7))
    if not (1 <= mo <= 12 and 1 <= d <= days_in_month(y, mo) and h < 24 and mi < 60 and s < 60):
        return None
    off = int(m.group(9)) * 60 + int(m.group(10) or 0)
    if m.group(10) is not None and int(m.group(10)) >= 60:
        return None
    if m.group(8) == "-":
        off = -off
    return local_us(y, mo, d, h, mi, s, ms) - off * 60 * 10**6, off, m.group(11)


def parse_written_time(text: str):
    m = _W_T.match(text)
    if not m:
        return None
    h, mi, s, ms = (int(x) for x in m.group(1, 2, 3, 4))
    if not (h < 24 and mi < 60 and s < 60):
        return None
    off = int(m.group(6)) * 60 + int(m.group(7) or 0)
    if m.group(7) is not None and int(m.group(7)) >= 60:
        return None
    if m.group(5) == "-":
        off = -off
    loc = ((h * 60 + mi) * 60 + s) * 10**6 + ms * 1000
    return (loc - off * 60 * 10**6) % US_DAY, off, m.group(8)


# ---- lexical rules of the other types ----------------------------------------------
RE_BOOL = re.compile(r"^[YN]$")
RE_INT = re.compile(r"^[+-]?[0-9]+$")
RE_DECIMAL = re.compile(r"^[+-]?(?:[0-9]+(?:[.,][0-9]*)?|[.,][0-9]+)$")
RE_DT_WRITTEN = _W_DT
RE_ENTITY = re.compile(r"&(?:amp|lt|gt|quot|apos|nbsp|#[0-9]+|#x[0-9A-Fa-f]+);")


def decimal_from_text(text: str) -> _dec.Decimal:
    """Value and exponent as written; comma == point."""
    t = text.replace(",", ".")
    if not RE_DECIMAL.match(text):
        raise ValueError(text)
    sign = 1 if t[0] == "-" else 0
    t = t.lstrip("+-")
    if "." in t:
        ip, fp = t.split(".")
    else:
        ip, fp = t, ""
    digits = tuple(int(c) for c in (ip + fp).lstrip("0")) or (0,)
    return _dec.Decimal((sign, digits, -len(fp)))


ENTITIES = {"&amp;": "&", "&lt;": "<", "&gt;": ">", "&nbsp;": " ", "&apos;": "'", "&quot;": '"'}


def decode_entities(text: str) -> str:
    out = []
    i = 0
    while i < len(text):
        if text[i] == "&":
            for ent, ch in ENTITIES.items():
                if text.startswith(ent, i):
                    out.append(ch)
                    i += len(ent)
                    break
            else:
                out.append("&")
                i += 1
        else:
            out.append(text[i])
            i += 1
    return "".join(out)


def escape_min(text: str) -> str:
    return text.replace("&", "&amp;").replace("<", "&lt;").replace(">", "&gt;")
